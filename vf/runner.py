"""Common runner for all property checks.

    ./check <ID> [--tier quick|thorough] [--replay FILE] [--part NAME] [--scale F]

Exit codes: 0 = property held on everything explored (KNOWN-FINDING lines may have
been printed); 1 = a line "VIOLATION property=<ID> replay=<path>" was printed;
2 = harness error (never reported as a violation).

A property module (vf/props/cNN.py) defines

    ID, RULE, ASSUMPTIONS, LEVEL_NOTE (optional)
    def parts(tier): -> list[Part]

Each Part has a plain-data *case* domain and an oracle ``prop(case)`` which returns a
dict of labels (``{"nt": bool, ...}``) or raises ``Violation``.  Cases come from a
Hypothesis strategy (``strategy=``) or from a finite enumeration (``enum=`` a
function shard,nshards -> iterator).  Plain-data cases make every failure a
replayable JSON file that needs no Hypothesis.
"""
import argparse
import hashlib
import importlib
import json
import multiprocessing as mp
import os
import signal
import sys
import time
import traceback
from collections import Counter

HERE = os.path.dirname(os.path.dirname(os.path.abspath(__file__)))
NPROC = int(os.environ.get("VERIF_NPROC", "16"))
CASE_TIMEOUT = float(os.environ.get("VERIF_CASE_TIMEOUT", "30"))


class Violation(Exception):
    """The property is violated by the current case."""

    def __init__(self, sub, msg, shape=""):
        super().__init__("%s: %s" % (sub, msg))
        self.sub = sub
        self.msg = msg
        self.shape = shape


class Inconclusive(BaseException):
    """Per-case watchdog fired (never a violation outside C07)."""


class _StopShrink(BaseException):
    pass


class HarnessError(Exception):
    pass


class Part:
    def __init__(self, name, prop, strategy=None, enum=None, n=100, exhaustive=False,
                 quick_shards=1, note=""):
        self.name = name
        self.prop = prop
        self.strategy = strategy
        self.enum = enum
        self.n = n
        self.exhaustive = exhaustive
        self.quick_shards = quick_shards
        self.note = note


def all_parts(mod, tier):
    """The parts of a check; in the thorough tier every part named in the module's ATHERIS list gets a
    companion part 'atheris-<name>': 16 libFuzzer campaigns (Atheris, gfapy instrumented) that drive the
    same case generator from the fuzzer's bytes and run the same oracle (vf/fuzz/generic.py)."""
    parts = list(mod.parts(tier))
    if tier == "thorough":
        for name in getattr(mod, "ATHERIS", []):
            base = [p for p in parts if p.name == name]
            if base:
                parts.append(_atheris_part(mod, base[0]))
    return parts


def _atheris_part(mod, base):
    import re
    import shutil
    import subprocess
    import tempfile

    def prop(case):
        if "atheris_stats" in case:
            st_ = case["atheris_stats"]
            return {"nt": st_.get("nontrivial", 0) > 0, "atheris_campaign": True, "atheris_harness_errors": st_.get("harness") or None,
                    "_sum": {"atheris_executions": st_.get("runs", 0), "atheris_nontrivial_executions": st_.get("nontrivial", 0),
                             "atheris_campaign_seconds": st_.get("seconds", 0)}}
        return base.prop(case)

    def enum(shard, nshards):
        secs = int(os.environ.get("VERIF_FUZZ_SECONDS", "45"))
        seed = int(os.environ.get("VERIF_SEED", "1")) * 1000 + shard + 1
        d = tempfile.mkdtemp(prefix="vffz")
        try:
            os.makedirs(os.path.join(d, "corpus"))
            out = os.path.join(d, "out.json")
            env_ = dict(os.environ, PYTHONPATH=HERE + os.pathsep + os.path.join(HERE, ".deps"))
            r = subprocess.run([sys.executable, "-m", "vf.fuzz.generic", mod.ID, base.name, out, "-max_total_time=%d" % secs,
                                "-seed=%d" % seed, "-max_len=4096", "-len_control=0", "-timeout=120", os.path.join(d, "corpus")],
                               cwd=HERE, env=env_, capture_output=True, text=True)
            if not os.path.exists(out):
                return  # atheris not available: the part contributes nothing (the Hypothesis parts decide)
            try:
                with open(out) as f:
                    res = json.load(f)
            except Exception:
                return
            m = re.search(r"Done (\d+) runs", r.stderr + r.stdout)
            found = res.get("found", [])
            harness = [x for x in found if x["sub"] == "harness"]
            yield {"atheris_stats": {"runs": int(m.group(1)) if m else res["stats"].get("cases", 0), "seconds": secs, "seed": seed,
                                     "nontrivial": res["stats"].get("nontrivial", 0),
                                     "harness": ("%d: %s" % (len(harness), harness[0]["message"][:80])) if harness else None}}
            for x in found:
                if x["sub"] != "harness":
                    yield x["case"]
        finally:
            shutil.rmtree(d, ignore_errors=True)

    return Part("atheris-" + base.name, prop, enum=enum,
                note="libFuzzer campaigns (Atheris, gfapy instrumented) of VERIF_FUZZ_SECONDS (45) s per shard driving the case generator of part '%s' "
                     "from the fuzzer's bytes, same oracle; evaluations counts the campaigns and the re-checked findings, the executions are in the labels" % base.name)


def case_hash(case):
    return hashlib.sha1(json.dumps(case, sort_keys=True, default=str).encode()).hexdigest()[:16]


def _truncate(obj, limit=1500):
    s = json.dumps(obj, default=str)
    if len(s) <= limit:
        return obj
    return {"truncated": s[:limit] + "..."}


class Stats:
    def __init__(self):
        self.evaluations = 0
        self.nt = set()
        self.labels = Counter()
        self.samples = []
        self.excluded = Counter()
        self.sums = Counter()  # numeric totals reported by oracles (e.g. executions of fuzzing campaigns)
        self.inconclusive = 0
        self.violation = None  # dict

    def merge(self, o):
        self.evaluations += o.evaluations
        self.nt |= o.nt
        self.labels.update(o.labels)
        for s in o.samples:
            if len(self.samples) < 6:
                self.samples.append(s)
        self.excluded.update(o.excluded)
        self.sums.update(o.sums)
        self.inconclusive += o.inconclusive
        if self.violation is None:
            self.violation = o.violation


def _alarm(signum, frame):
    raise Inconclusive()


def _signature(pid, part, v):
    return "%s/%s/%s/%s" % (pid, part, v.sub, v.shape)


def _sut_failure(e):
    """An exception that escaped the oracle.  Every check other than C07 offers only valid
    input and legal calls, and guards the calls whose failure it wants to describe itself;
    when an exception nevertheless comes out of the library under test (innermost frame in
    its source tree), or what the library wrote cannot be split by the independent grammar,
    that is the library failing on a legal case, not a harness problem.  Anything raised by
    the harness' own code stays a harness error."""
    from . import env, grammar
    tb = traceback.extract_tb(e.__traceback__)
    if isinstance(e, grammar.ParseError):
        return Violation("unparsable-output", "the library wrote text the independent grammar cannot split: %s\n%s" % (
            str(e)[:600], "".join(traceback.format_list(tb[-3:]))[-800:]), "ParseError")
    if tb and os.path.abspath(tb[-1].filename).startswith(os.path.join(env.ROOT, "gfapy") + os.sep):
        return Violation("library-raised", "a legal call raised %s: %s\n%s" % (
            type(e).__name__, str(e)[:600], "".join(traceback.format_list(tb[-4:]))[-1200:]),
            "%s@%s:%s" % (type(e).__name__, os.path.basename(tb[-1].filename), tb[-1].name))
    return None


def load_findings(pid):
    path = os.path.join(HERE, "known_findings.json")
    if not os.path.exists(path):
        return []
    with open(path) as f:
        data = json.load(f)
    return [e for e in data.get("findings", []) if e.get("property") == pid]


def _run_case(part, case, stats, open_sigs, pid, keep_sample=True):
    """Run the oracle on one case. Returns None or a Violation to be raised."""
    stats.evaluations += 1
    signal.setitimer(signal.ITIMER_REAL, CASE_TIMEOUT)
    try:
        labels = part.prop(case)
    except Violation as v:
        sig = _signature(pid, part.name, v)
        if sig in open_sigs:
            stats.excluded[sig] += 1
            return None
        return v
    except Inconclusive:
        stats.inconclusive += 1
        return None
    except Exception as e:
        v = _sut_failure(e)
        if v is None:
            raise
        sig = _signature(pid, part.name, v)
        if sig in open_sigs:
            stats.excluded[sig] += 1
            return None
        return v
    finally:
        signal.setitimer(signal.ITIMER_REAL, 0)
    if labels:
        for k, val in labels.items():
            if k == "nt":
                continue
            if k == "_sum":
                stats.sums.update(val)
                continue
            if val is True:
                stats.labels[k] += 1
            elif val is not False and val is not None:
                stats.labels["%s=%s" % (k, val)] += 1
        if labels.get("nt"):
            h = case_hash(case)
            if h not in stats.nt:
                stats.nt.add(h)
                if keep_sample and len(stats.samples) < 3:
                    stats.samples.append(_truncate(case))
    return None


def run_part_shard(modname, part_index, tier, seed, shard, nshards, scale):
    """Executed in a worker (or inline). Returns a Stats."""
    signal.signal(signal.SIGALRM, _alarm)
    mod = importlib.import_module(modname)
    part = all_parts(mod, tier)[part_index]
    pid = mod.ID
    stats = Stats()
    open_sigs = set(e["signature"] for e in load_findings(pid) if e.get("status") == "open")
    n = max(1, int(part.n * scale))
    try:
        if part.enum is not None:
            for case in part.enum(shard, nshards):
                v = _run_case(part, case, stats, open_sigs, pid)
                if v is not None:
                    stats.violation = {"case": case, "sub": v.sub, "msg": v.msg, "shape": v.shape,
                                       "part": part.name}
                    break
        else:
            _run_hypothesis(part, n, seed * 1000 + shard, stats, open_sigs, pid, tier)
    except Violation:
        raise
    return stats


def _run_hypothesis(part, n, seed, stats, open_sigs, pid, tier):
    import hypothesis
    from hypothesis import HealthCheck, Phase, given, settings

    state = {"best": None, "best_len": None, "after": 0, "t0": None}
    shrink_budget = 400 if tier == "quick" else 3000
    shrink_time = 25.0 if tier == "quick" else 120.0

    def test(case):
        v = _run_case(part, case, stats, open_sigs, pid, keep_sample=state["best"] is None)
        if state["best"] is not None:
            state["after"] += 1
        if v is not None:
            ln = len(json.dumps(case, default=str))
            if state["best"] is None or ln <= state["best_len"]:
                state["best"] = {"case": case, "sub": v.sub, "msg": v.msg, "shape": v.shape,
                                 "part": part.name}
                state["best_len"] = ln
            if state["t0"] is None:
                state["t0"] = time.time()
        if state["best"] is not None and (
                state["after"] > shrink_budget or time.time() - state["t0"] > shrink_time):
            raise _StopShrink()
        if v is not None:
            raise v

    wrapped = hypothesis.seed(seed)(
        settings(max_examples=n, database=None, deadline=None, derandomize=False,
                 report_multiple_bugs=False, print_blob=False,
                 suppress_health_check=list(HealthCheck),
                 phases=[Phase.generate, Phase.shrink])(given(part.strategy)(test)))
    try:
        wrapped()
    except _StopShrink:
        pass
    except Violation:
        pass
    except BaseException as e:  # flaky / internal problems: harness error unless we hold a failure
        if state["best"] is None:
            raise
        sys.stderr.write("note: hypothesis ended with %s after a failure was recorded\n%s\n" % (
            type(e).__name__, traceback.format_exc()[-1500:]))
    if state["best"] is not None:
        stats.violation = state["best"]


def _worker(args):
    try:
        return ("ok", run_part_shard(*args))
    except BaseException:
        return ("err", traceback.format_exc())


def write_replay(pid, viol, seed, tier):
    rdir = os.environ.get("VERIF_REPLAY_DIR") or os.path.join(HERE, "replays")
    os.makedirs(rdir, exist_ok=True)
    body = {"property": pid, "part": viol["part"], "case": viol["case"], "sub": viol["sub"],
            "shape": viol["shape"], "message": viol["msg"][:4000], "seed": seed, "tier": tier,
            "signature": "%s/%s/%s/%s" % (pid, viol["part"], viol["sub"], viol["shape"])}
    h = case_hash([viol["part"], viol["case"]])
    path = os.path.join(rdir, "%s-%s.json" % (pid, h))
    with open(path, "w") as f:
        json.dump(body, f, indent=1, default=str)
    return path


def write_evidence(mod, tier, seed, total, per_part, wall, violations, exhaustive_parts,
                   n_regress=0):
    pid = mod.ID
    cov = {
        "evaluations": total.evaluations,
        "distinct_nontrivial": len(total.nt),
        "rule": mod.RULE,
        "samples": total.samples[:6] or ["<none>"],
        "labels": dict(sorted(total.labels.items())),
        "parts": per_part,
        "excluded_by_finding": dict(total.excluded),
        "inconclusive_cases": total.inconclusive,
        "regression_replays": n_regress,
        "totals": dict(total.sums),
    }
    if exhaustive_parts:
        cov["exhaustive_parts"] = exhaustive_parts
        if len(exhaustive_parts) == len(per_part):
            cov["exhaustive"] = True
    ev = {
        "property_id": pid,
        "tier": tier,
        "seed": seed,
        "level": "exploration",
        "coverage": cov,
        "assumptions": list(getattr(mod, "ASSUMPTIONS", [])),
        "wall_s": round(wall, 2),
        "violations": violations,
    }
    evdir = os.environ.get("VERIF_EVIDENCE_DIR") or os.path.join(HERE, "evidence")
    os.makedirs(evdir, exist_ok=True)
    path = os.path.join(evdir, "%s.json" % pid)
    tmp = path + ".tmp"
    with open(tmp, "w") as f:
        json.dump(ev, f, indent=1, default=str)
    os.replace(tmp, path)


def replay(mod, path):
    signal.signal(signal.SIGALRM, _alarm)
    with open(path) as f:
        body = json.load(f)
    tier = body.get("tier", "quick")
    parts = {p.name: p for p in all_parts(mod, tier)}
    if body["part"] not in parts:
        parts.update({p.name: p for p in all_parts(mod, "thorough")})
    part = parts[body["part"]]
    try:
        part.prop(body["case"])
    except Violation as v:
        print("replay: %s" % v)
        print("VIOLATION property=%s replay=%s" % (mod.ID, path))
        return 1
    except Exception as e:
        v = _sut_failure(e)
        if v is None:
            raise
        print("replay: %s" % v)
        print("VIOLATION property=%s replay=%s" % (mod.ID, path))
        return 1
    print("replay: property holds on this case")
    return 0


def known_finding_lines(mod, tier):
    """Replay witnesses of open findings; print KNOWN-FINDING for those still failing."""
    parts = {p.name: p for p in mod.parts(tier)}
    for e in load_findings(mod.ID):
        if e.get("status") != "open":
            continue
        part = parts.get(e["part"])
        if part is None:
            continue
        signal.setitimer(signal.ITIMER_REAL, CASE_TIMEOUT)
        try:
            part.prop(e["witness"])
        except Violation as v:
            if _signature(mod.ID, part.name, v) == e["signature"]:
                print("KNOWN-FINDING: property=%s %s" % (mod.ID, e["what"]))
            else:
                # the witness now fails differently: that is a new violation
                viol = {"part": part.name, "case": e["witness"], "sub": v.sub, "msg": v.msg,
                        "shape": v.shape}
                return viol
        except Inconclusive:
            pass
        finally:
            signal.setitimer(signal.ITIMER_REAL, 0)
    return None


def regress_cases(mod, tier):
    """Seconds-long replay tier: saved shrunk cases of defects that were fixed (and of
    seeded changes) must keep passing.  Returns a violation dict or None, and a count."""
    d = os.path.join(HERE, "regress")
    n = 0
    if not os.path.isdir(d):
        return None, 0
    parts = {p.name: p for p in mod.parts(tier)}
    for fn in sorted(os.listdir(d)):
        if not fn.startswith(mod.ID + "-") or not fn.endswith(".json"):
            continue
        with open(os.path.join(d, fn)) as f:
            body = json.load(f)
        part = parts.get(body["part"])
        if part is None:
            continue
        n += 1
        signal.setitimer(signal.ITIMER_REAL, CASE_TIMEOUT)
        try:
            part.prop(body["case"])
        except Violation as v:
            return {"part": part.name, "case": body["case"], "sub": v.sub, "msg": v.msg,
                    "shape": v.shape}, n
        except Inconclusive:
            pass
        except Exception as e:
            v = _sut_failure(e)
            if v is None:
                raise
            return {"part": part.name, "case": body["case"], "sub": v.sub, "msg": v.msg,
                    "shape": v.shape}, n
        finally:
            signal.setitimer(signal.ITIMER_REAL, 0)
    return None, n


def main(argv=None):
    ap = argparse.ArgumentParser()
    ap.add_argument("id")
    ap.add_argument("--tier", default=os.environ.get("VERIF_TIER", "quick"),
                    choices=["quick", "thorough"])
    ap.add_argument("--replay")
    ap.add_argument("--part")
    ap.add_argument("--scale", type=float, default=float(os.environ.get("VERIF_SCALE", "1")))
    ap.add_argument("--inline", action="store_true", help="no worker processes (debugging)")
    args = ap.parse_args(argv)
    try:
        seed = int(os.environ.get("VERIF_SEED", "1"))
    except ValueError:
        seed = 1
    pid = args.id.upper()
    modname = "vf.props.%s" % pid.lower()
    t0 = time.time()
    try:
        signal.signal(signal.SIGALRM, _alarm)
        from . import env  # noqa: F401  (imports gfapy from the tree under test)
        mod = importlib.import_module(modname)
        if args.replay:
            return replay(mod, args.replay)
        parts = all_parts(mod, args.tier)
        jobs = []
        for i, p in enumerate(parts):
            if args.part and p.name != args.part:
                continue
            nsh = NPROC if args.tier == "thorough" else p.quick_shards
            for s in range(nsh):
                jobs.append((modname, i, args.tier, seed, s, nsh, args.scale))
        viol = known_finding_lines(mod, args.tier)
        n_regress = 0
        if viol is None and not os.environ.get("VERIF_NO_REGRESS"):
            viol, n_regress = regress_cases(mod, args.tier)
        results = []
        if viol is None:
            if args.inline or len(jobs) == 1:
                results = [_worker(j) for j in jobs]
            else:
                ctx = mp.get_context("fork")
                with ctx.Pool(min(NPROC, len(jobs))) as pool:
                    results = pool.map(_worker, jobs, chunksize=1)
        total = Stats()
        per_part = {}
        for j, (status, r) in zip(jobs, results):
            if status != "ok":
                sys.stderr.write("HARNESS ERROR in %s part %s shard %d:\n%s\n" % (
                    pid, parts[j[1]].name, j[4], r))
                return 2
            total.merge(r)
            pp = per_part.setdefault(parts[j[1]].name, {"evaluations": 0, "distinct_nontrivial": 0,
                                                        "exhaustive": parts[j[1]].exhaustive,
                                                        "note": parts[j[1]].note})
            pp["evaluations"] += r.evaluations
            pp["distinct_nontrivial"] += len(r.nt)
        if viol is None:
            viol = total.violation
        exhaustive_parts = [n for n, pp in per_part.items() if pp["exhaustive"]]
        wall = time.time() - t0
        write_evidence(mod, args.tier, seed, total, per_part, wall, 1 if viol else 0,
                       exhaustive_parts, n_regress)
        for sig, cnt in sorted(total.excluded.items()):
            print("excluded-by-known-finding %s: %d cases" % (sig, cnt))
        print("%s tier=%s seed=%d evaluations=%d distinct_nontrivial=%d inconclusive=%d wall=%.1fs" % (
            pid, args.tier, seed, total.evaluations, len(total.nt), total.inconclusive, wall))
        if viol:
            path = write_replay(pid, viol, seed, args.tier)
            print("violation detail: part=%s sub=%s shape=%s\n%s" % (
                viol["part"], viol["sub"], viol["shape"], viol["msg"][:3000]))
            print("VIOLATION property=%s replay=%s" % (pid, os.path.relpath(path, HERE)))
            return 1
        if total.evaluations == 0 or len(total.nt) < 2:
            sys.stderr.write("HARNESS ERROR: check explored nothing non-trivial\n")
            return 2
        return 0
    except SystemExit:
        raise
    except BaseException:
        sys.stderr.write("HARNESS ERROR:\n%s\n" % traceback.format_exc())
        return 2


if __name__ == "__main__":
    sys.exit(main())
