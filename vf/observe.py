"""Observation of a gfapy.Gfa through its public API (plus Line._refs and the
placeholder registry), as plain hashable values; structural invariants."""
from collections import Counter

from . import grammar as G
from .env import gfapy

REF_KEYS_LINES = ["dovetails_L", "dovetails_R", "edges_to_contained", "edges_to_containers",
                  "internals", "gaps_L", "gaps_R", "fragments", "paths", "sets"]


def placeholders(gfa):
    return list(gfa._records["\n"].values())


def all_lines(gfa, split_headers=True):
    """gfa.lines plus placeholders. gfa.lines contains the *split* header (temporary
    one-tag H lines, documented in header.rst); for structural invariants the single
    connected header line is used instead."""
    if split_headers:
        return list(gfa.lines) + placeholders(gfa)
    return [l for l in gfa.lines if l.record_type != "H"] + [gfa.header] + placeholders(gfa)


def is_unknown(line):
    return line.record_type == "\n"


def line_text(line):
    if is_unknown(line):
        return "?\t%s" % line.name
    if line.record_type == "#":
        return str(line)
    return line.to_str(add_virtual_commentary=False)


def line_key(line, version):
    """Canonical, hashable identity of a line's written form (a link identified with
    its complement)."""
    if is_unknown(line):
        return ("?", line.name)
    t = line_text(line)
    try:
        c = G.canon_line(t, version)
    except Exception:
        return ("unparsable", t)
    if c[0] == "L":
        c = (c[0], G.link_key(c), c[2])
    return c


def _name(x):
    if isinstance(x, str):
        return x
    if isinstance(x, gfapy.OrientedLine):
        return _name(x.line) + x.orient
    try:
        return x.name if not gfapy.is_placeholder(x.name) else "*"
    except Exception:
        return repr(x)


def forward_refs(line):
    """Targets of the reference fields of a line (objects as stored: Line or str)."""
    rt = line.record_type
    if rt in ("L", "C"):
        return [line.get("from_segment"), line.get("to_segment")]
    if rt == "P":
        out = [ol.line for ol in line.get("segment_names")]
        out += [ol.line for ol in line._refs.get("links", [])]
        return out
    if rt in ("E", "G"):
        return [line.get("sid1").line, line.get("sid2").line]
    if rt == "F":
        return [line.get("sid")]
    if rt == "O":
        return [ol.line for ol in line.get("items")]
    if rt == "U":
        return list(line.get("items"))
    return []


def observe(gfa, with_text=True):
    """Order-insensitive observation; two observations are comparable with ==."""
    version = gfa.version
    lines = all_lines(gfa)
    keys = {id(l): line_key(l, version) for l in lines}

    def k(x):
        return keys.get(id(x), ("foreign", _name(x)))

    per_line = Counter()
    for l in lines:
        fwd = tuple(_name(t) for t in forward_refs(l)) if l.record_type != "P" else \
            tuple(_name(ol) for ol in l.get("segment_names"))
        back = []
        for key, lst in sorted(l._refs.items()):
            if not lst:
                continue
            if key == "links":
                items = []
                for ol in lst:
                    lk = k(ol.line)
                    # effective direction: does the traversal match the canonical form?
                    c = G.canon_line(line_text(ol.line), version)
                    stored_is_canonical = (c[1] == lk[1]) if lk[0] == "L" else True
                    selfcomp = (G.complement_link_canon(c)[1][:4] == c[1][:4])
                    eff = "=" if selfcomp else ("+" if (ol.orient == "+") == stored_is_canonical else "-")
                    items.append((lk, eff))
                back.append((key, tuple(items)))  # order matters for a path
            else:
                back.append((key, tuple(sorted(repr(k(x)) for x in lst))))
        per_line[(keys[id(l)], bool(l.virtual), l.is_connected(), fwd, tuple(back))] += 1
    obs = {
        "version": version,
        "lines": per_line,
        "names": {
            "S": sorted(gfa.segment_names), "E": sorted(map(str, gfa.edge_names)),
            "G": sorted(gfa.gap_names), "P": sorted(gfa.path_names), "U": sorted(gfa.set_names),
            "all": sorted(map(str, gfa.names)),
        },
        "n_placeholders": len(placeholders(gfa)),
    }
    if with_text:
        try:
            obs["records"] = G.canon_doc(str(gfa), version) if version else None
        except Exception as e:
            obs["records"] = ("unparsable", str(e))
    return obs


def obs_diff(a, b):
    out = []
    for key in sorted(set(a) | set(b)):
        if a.get(key) != b.get(key):
            if isinstance(a.get(key), Counter) and isinstance(b.get(key), Counter):
                out.append("%s: only-first=%s only-second=%s" % (
                    key, [repr(x)[:400] for x in (a[key] - b[key]).elements()][:4],
                    [repr(x)[:400] for x in (b[key] - a[key]).elements()][:4]))
            else:
                out.append("%s: %r != %r" % (key, a.get(key), b.get(key)))
    return "\n".join(out)


def invariants(gfa, removed=()):
    """Closure / symmetry / ownership / registry coherence. Returns list of problems."""
    probs = []
    lines = all_lines(gfa, split_headers=False)
    ids = set(id(l) for l in lines)
    removed_ids = set(id(l) for l in removed)

    def check_target(src, t, how):
        if not isinstance(t, gfapy.Line):
            probs.append("closure: %s of %r is not a line: %r" % (how, line_text(src), t))
            return False
        if id(t) in removed_ids:
            probs.append("ghost: removed line %r reachable via %s of %r" % (line_text(t), how, line_text(src)))
            return False
        if not t.is_connected() or t.gfa is not gfa:
            probs.append("closure: %s of %r is not connected to this Gfa: %r" % (how, line_text(src), line_text(t)))
            return False
        if id(t) not in ids:
            probs.append("closure: %s of %r is not a line of the Gfa: %r" % (how, line_text(src), line_text(t)))
            return False
        return True

    for l in lines:
        if not isinstance(l, gfapy.Line):
            probs.append("registry: non-line in collections: %r" % (l,))
            continue
        if not l.is_connected() or l.gfa is not gfa:
            probs.append("ownership: listed line does not report the Gfa: %r" % line_text(l))
        rt = l.record_type
        # registry: found under its current identifier
        if rt in ("S", "P", "E", "G", "O", "U", "\n"):
            nm = l.name
            if not gfapy.is_placeholder(nm):
                found = gfa.line(nm)
                if found is not l:
                    probs.append("registry: gfa.line(%r) is %r, not the line carrying the name (%r)" % (
                        nm, line_text(found) if found is not None else None, line_text(l)))
                if rt == "S" and gfa.segment(nm) is not l:
                    probs.append("registry: gfa.segment(%r) is not the segment" % nm)
    for l in lines:
        fr = forward_refs(l)
        cnt = Counter()
        ok = True
        for t in fr:
            if check_target(l, t, "reference"):
                cnt[id(t)] += 1
            else:
                ok = False
        if not ok:
            continue
        targets = {id(t): t for t in fr}
        for tid, n in cnt.items():
            t = targets[tid]
            m = 0
            for key, lst in t._refs.items():
                if key == "links":
                    continue
                m += sum(1 for x in lst if x is l)
            if m != n:
                probs.append("symmetry: %r references %r %d time(s) but is back-referenced %d time(s)" % (
                    line_text(l), line_text(t), n, m))
    for t in lines:
        for key, lst in t._refs.items():
            if key == "links":
                continue
            for x in lst:
                if not check_target(t, x, "back-reference[%s]" % key):
                    continue
                if not any(y is t for y in forward_refs(x)):
                    probs.append("symmetry: %r lists %r under %s, which does not reference it" % (
                        line_text(t), line_text(x), key))
    return probs


def check_refs_against_model(gfa, model):
    """Compare the back-reference collections of every *defined* named line with the
    ones the model derives from the text. Returns list of problems."""
    probs = []
    exp = model.expected_refs()
    version = model.version
    rec_key = {}
    for r in model.recs:
        c = G.canon_rec(r)
        if c[0] == "L":
            c = (c[0], G.link_key(c), c[2])
        rec_key[id(r)] = c
    # model link record -> gfapy link line, via canonical key
    for r in model.recs:
        nm = None
        if r.rt == "S":
            target = gfa.segment(r.pos[0])
            tkey = ("S", r.pos[0])
        elif r.rt in ("E", "G", "O", "U") and r.pos[0] != "*":
            target = gfa.line(r.pos[0])
            tkey = ("N", r.pos[0])
        else:
            continue
        if target is None:
            probs.append("model: %r not found in the Gfa" % r.text())
            continue
        want = {}
        for src in ((tkey,) if r.rt != "S" else (tkey, ("N", r.pos[0]))):
            for key, cnt in exp.get(src, {}).items():
                c = want.setdefault(key, Counter())
                for rid, n in cnt.items():
                    c[rec_key[rid]] += n
        got = {}
        for key, lst in target._refs.items():
            if key == "links" or not lst:
                continue
            for x in lst:
                if x.virtual:
                    continue
                k2 = key
                if x.record_type == "E" and key.startswith("edges_to_"):
                    try:
                        from . import model as _M
                        if _M.both_whole(G.split_line(line_text(x), version)):
                            k2 = "containment(both whole)"
                    except Exception:
                        pass
                got.setdefault(k2, Counter())[line_key(x, version)] += 1
        if want != got:
            keys = sorted(set(want) | set(got))
            detail = []
            for k_ in keys:
                if want.get(k_, Counter()) != got.get(k_, Counter()):
                    detail.append("%s: expected %s got %s" % (
                        k_, sorted(map(repr, want.get(k_, Counter()).elements())),
                        sorted(map(repr, got.get(k_, Counter()).elements()))))
            probs.append("neighbourhood of %r differs: %s" % (r.text(), "; ".join(detail)[:1500]))
    # links back-referenced by paths
    if version == "gfa1":
        for r in model.recs:
            if r.rt != "L":
                continue
            want = Counter()
            for rid, n in exp.get(("L", id(r)), {}).get("paths", {}).items():
                want[rec_key[rid]] += n
            found = [l for l in gfa._gfa1_links if line_key(l, version) == rec_key[id(r)]]
            if not found:
                probs.append("model: link %r not found" % r.text())
                continue
            got = Counter(line_key(x, version) for x in found[0]._refs.get("paths", []) if not x.virtual)
            if want != got:
                probs.append("paths of link %r: expected %s got %s" % (r.text(), sorted(map(repr, want.elements())), sorted(map(repr, got.elements()))))
    return probs
