"""Generators of plain-data GFA documents, lines and values.

All builders are ordinary functions of a ``random.Random``-like object ``r``.  Under
Hypothesis ``r`` is ``st.randoms(use_true_random=False)`` so every choice is drawn
from (and shrunk by) Hypothesis; enumerations use ``random.Random(seed)`` shards.

A document is ``{"version": "gfa1"|"gfa2", "lines": [[rt, [pos...], [[n,t,v]...]], ...]}``
(see grammar.Rec.plain).  Builders are *constructive*: referencing records are drawn
over the pool of identifiers already defined, so no filtering is needed.
"""
import json
import math

from hypothesis import strategies as st

from . import grammar as G

SEG_NAMES = ["A", "B", "C", "D", "s1", "1", "2", "x.y", "a:b", "n*", "u+v", "w-", "12"]
OTHER_NAMES = ["p1", "e1", "e2", "e3", "g1", "g2", "o1", "o2", "u1", "u2", "P", "7", "k;k", "id*", "e4", "e5", "1", "2", "3",
               "q1", "q2", "q3", "z9"]
TAG_NAMES = ["xx", "ab", "X1", "zz", "aa", "cn", "q9", "Za", "bb", "i1"]
CUSTOM_TYPES = ["X", "Y", "Z1", "ab", "?"]
INV = {"+": "-", "-": "+"}


import os as _os
# Hypothesis' random source favours "simple" draws (randrange -> 0, random() -> 0.0): the first
# element of a list is chosen two to three times as often as the others and `random() < 0.05`
# holds a quarter of the time.  Good for boundaries, bad for the nominal mixture the builders
# were written for.  Each case therefore decides once (with its first draw) whether its
# choice()/chance() calls use the raw draws or mix the drawn bits into uniform ones; measured
# effect on the share of non-trivial cases: DESIGN.md section 3.  VERIF_FAIR_CHOICE=0/1 forces it.
_MODE = _os.environ.get("VERIF_FAIR_CHOICE", "mix")


def _fair(r):
    f = getattr(r, "_vf_fair", None)
    if f is None:
        if _MODE == "0" or not hasattr(r, "getrandbits"):
            f = False
        elif _MODE == "1":
            f = True
        else:
            f = r.getrandbits(2) != 0
        r._vf_fair = f
    return f


def _mix(r):
    b = r.getrandbits(32)
    b = ((b + 0x9E3779B9) * 0x85EBCA6B) & 0xFFFFFFFF
    b ^= b >> 13
    b = (b * 0xC2B2AE35) & 0xFFFFFFFF
    b ^= b >> 16
    return b


def choice(r, seq):
    if _fair(r):
        return seq[_mix(r) % len(seq)]
    return seq[r.randrange(len(seq))]


def chance(r, p):
    if _fair(r):
        return _mix(r) < p * 4294967296.0
    return r.random() < p


def fair(r, p):
    """Like chance(), for rare branches: Hypothesis' random() favours 0.0 and other simple
    values, which makes `random() < 0.05` true about a quarter of the time; the drawn bits
    are mixed here so that the nominal probability holds under Hypothesis as well."""
    return _mix(r) < p * 4294967296.0


# ------------------------------------------------------------------ tag values

INT_BOUNDS = [0, 1, -1, 127, 128, -128, -129, 255, 256, 32767, 32768, -32768, -32769, 65535, 65536,
              2 ** 31 - 1, 2 ** 31, -2 ** 31, -2 ** 31 - 1, 2 ** 32 - 1, 2 ** 32, 2 ** 63, -2 ** 63]


def gen_int(r):
    k = r.randrange(4)
    if k == 0:
        return r.randint(-9, 9)
    if k == 1:
        return choice(r, INT_BOUNDS)
    if k == 2:
        return r.randint(-1000, 100000)
    return r.randint(-2 ** 40, 2 ** 40)


def spell_int(r, v, canonical):
    if canonical or chance(r, 0.7):
        return str(v)
    k = r.randrange(3)
    if k == 0 and v >= 0:
        return "+%d" % v
    if k == 1:
        return ("-" if v < 0 else "") + "00" + str(abs(v))
    return str(v)


FLOATS = [0.0, 1.0, -1.0, 0.5, 1.5e-7, 2.5e10, 1e16, 123456.789, -3.25, 1e-300, 1.7976931348623157e308, 5e-324, 0.1]


def gen_float(r):
    k = r.randrange(3)
    if k == 0:
        return choice(r, FLOATS)
    if k == 1:
        return r.randint(-1000, 1000) / 8.0
    return (r.random() - 0.5) * 10 ** r.randint(-12, 12)


def spell_float(r, v, canonical):
    if canonical or chance(r, 0.6):
        return repr(float(v))
    k = r.randrange(4)
    if k == 0:
        return "%e" % v
    if k == 1:
        return "%E" % v
    if k == 2 and v == int(v) and abs(v) < 1e6:
        return str(int(v))  # "5" is a valid f value
    if k == 3 and 0 < abs(v) < 1 and "e" not in repr(v):
        s = repr(abs(v))[1:]  # ".5"
        return ("-" if v < 0 else "") + s
    return repr(float(v))


Z_ALPHA = "abcXYZ019 :;,*+-$=[]{}\"'#@/\\|_.~!"


def gen_string(r, maxlen=8):
    n = r.randint(1, maxlen)
    return "".join(choice(r, Z_ALPHA) for _ in range(n))


def gen_json_value(r, depth=0):
    k = r.randrange(7 if depth < 2 else 5)
    if k == 0:
        return r.randint(-50, 50)
    if k == 1:
        return gen_string(r, 5)
    if k == 2:
        return choice(r, [True, False, None])
    if k == 3:
        return r.randint(-100, 100) / 4.0
    if k == 4:
        return choice(r, ["", "é", "a\tb", "\\", "\"q\""])
    if k == 5:
        return [gen_json_value(r, depth + 1) for _ in range(r.randint(0, 3))]
    return {gen_string(r, 3): gen_json_value(r, depth + 1) for _ in range(r.randint(0, 3))}


def gen_json(r):
    if chance(r, 0.5):
        return [gen_json_value(r, 1) for _ in range(r.randint(0, 3))]
    return {gen_string(r, 3): gen_json_value(r, 1) for _ in range(r.randint(0, 3))}


def spell_json(r, v, canonical):
    if canonical or chance(r, 0.6):
        return json.dumps(v)
    if chance(r, 0.5):
        return json.dumps(v, separators=(",", ":"))
    return json.dumps(v, sort_keys=True, separators=(" , ", " : "))


def gen_hex(r):
    n = r.randint(1, 5)
    return "".join("%02X" % r.randrange(256) for _ in range(n))


B_EDGES = sorted(set(e + d for e in (-2 ** 31, -2 ** 15, -2 ** 7, 0, 2 ** 7, 2 ** 8, 2 ** 15, 2 ** 16, 2 ** 31, 2 ** 32)
                      for d in (-2, -1, 0, 1)))


def gen_barray(r, canonical):
    """Returns the string form of a valid B value."""
    if chance(r, 0.3):
        vals = [gen_float(r) for _ in range(r.randint(1, 4))]
        return "f," + ",".join(spell_float(r, v, canonical) for v in vals)
    if chance(r, 0.25):
        # the largest (and smallest) element sits on a subtype boundary: the written subtype
        # is decided by exactly these values
        m = choice(r, [127, 128, 255, 256, 32767, 32768, 65535, 65536, 2 ** 31 - 1, 2 ** 31])
        vals = [m] + [r.randint(0, min(m, 300)) for _ in range(r.randint(0, 2))]
        if chance(r, 0.6):
            neg = [-1, -m, -m - 1, -(m // 2)]
            vals.append(choice(r, [x for x in neg if x >= -2 ** 31]))
        r.shuffle(vals)
        fits = [t for t in "cCsSiI" if G.B_RANGE[t][0] <= min(vals) and max(vals) <= G.B_RANGE[t][1]]
        if fits:
            st_ = smallest_subtype(vals) if canonical else choice(r, fits)
            return st_ + "," + ",".join(str(v) for v in vals)
    st_ = choice(r, "cCsSiI")
    lo, hi = G.B_RANGE[st_]
    vals = []
    for _ in range(r.randint(1, 4)):
        k = r.randrange(4)
        if k == 0:
            vals.append(choice(r, [lo, hi, lo + 1, hi - 1, 0]))
        elif k == 1:
            # the boundaries of every narrower subtype, +-1: they decide the subtype that is written
            vals.append(choice(r, [b for b in B_EDGES if lo <= b <= hi]))
        else:
            vals.append(r.randint(max(lo, -300), min(hi, 300)))
    if canonical:
        st_ = smallest_subtype(vals)
    return st_ + "," + ",".join(str(v) for v in vals)


def smallest_subtype(vals):
    lo, hi = min(vals), max(vals)
    order = "csi" if lo < 0 else "CSI"
    for s in order:
        a, b = G.B_RANGE[s]
        if a <= lo and hi <= b:
            return s
    raise ValueError("out of range")


def gen_tag_value(r, t, canonical=False):
    if t == "A":
        return chr(r.randint(33, 126))
    if t == "i":
        return spell_int(r, gen_int(r), canonical)
    if t == "f":
        return spell_float(r, gen_float(r), canonical)
    if t == "Z":
        return gen_string(r)
    if t == "J":
        return spell_json(r, gen_json(r), canonical)
    if t == "H":
        return gen_hex(r)
    if t == "B":
        return gen_barray(r, canonical)
    raise ValueError(t)


def gen_tags(r, version, rt, canonical=False, maxn=3, heavy=False):
    """Custom tags (all 7 datatypes) + sometimes predefined tags of the record type."""
    tags = []
    used = set()
    n = r.randint(0, maxn) if not heavy else r.randint(1, maxn + 1)
    for _ in range(n):
        name = choice(r, TAG_NAMES)
        if name in used:
            continue
        used.add(name)
        t = choice(r, G.TAG_TYPES)
        tags.append([name, t, gen_tag_value(r, t, canonical)])
    pre = G.PREDEFINED[version].get(rt, {})
    for name, t in sorted(pre.items()):
        if name in ("LN", "ID", "VN", "TS"):
            continue  # handled by the record builders (they have cross-field meaning)
        if chance(r, 0.12):
            v = gen_tag_value(r, t, canonical)
            if t == "i":
                v = str(abs(int(v)) % 100000)
            tags.append([name, t, v])
    if version == "gfa2" and rt == "S" and fair(r, 0.06):
        # in GFA2 LN is a tag like any other (files converted from GFA1 by other tools carry it)
        tags.append(["LN", "i", str(r.randint(1, 40))])
    r.shuffle(tags)
    return tags


# ------------------------------------------------------------------ alignments

def gen_cigar(r, ops="MIDP", maxops=4, maxlen=6):
    n = r.randint(1, maxops)
    out = []
    for _ in range(n):
        out.append("%d%s" % (r.randint(0 if chance(r, 0.1) else 1, maxlen), choice(r, ops)))
    return "".join(out)


def cigar_lengths(c):
    """(reference length, query length) by the SAM rules."""
    ref = qry = 0
    for n, op in G.canon_cigar(c):
        if op in "M=XDN":
            ref += n
        if op in "M=XIS":
            qry += n
    return ref, qry


def complement_cigar(c):
    if c == "*":
        return "*"
    ops = G.complement_cigar_ops(G.canon_cigar(c))
    return "".join("%d%s" % o for o in ops)


def gen_overlap_gfa1(r, ops="MIDP=XH"):
    if chance(r, 0.35):
        return "*"
    return gen_cigar(r, ops)


# ------------------------------------------------------------------ GFA1 documents

def gen_sequence(r, n):
    return "".join(choice(r, "ACGTacgtNn") for _ in range(n))


def link_ends(f, fo, t, to):
    """Unordered pair of segment ends joined by the link f fo -> t to."""
    return frozenset([(f, "R" if fo == "+" else "L"), (t, "L" if to == "+" else "R")]) \
        if (f, "R" if fo == "+" else "L") != (t, "L" if to == "+" else "R") \
        else frozenset([(f, "R" if fo == "+" else "L"), "hairpin"])


def link_form_key(f, fo, t, to, ov):
    a = (f, fo, t, to, ov)
    b = (t, INV[to], f, INV[fo], complement_cigar(ov))
    return min(a, b)


def build_gfa1(r, opts=None):
    o = {"nseg": (1, 5), "canonical": False, "paths": True, "containments": True,
         "both_forms": True, "headers": True, "comments": True, "ops": "MIDP=XH", "tags": True,
         "shuffle": True, "ids": True, "names": SEG_NAMES}
    o.update(opts or {})
    can = o["canonical"]
    lines = []
    nseg = r.randint(*o["nseg"])
    names = list(o["names"])
    r.shuffle(names)
    segs = names[:nseg]
    other = list(OTHER_NAMES)
    r.shuffle(other)
    used_names = set(segs)

    def fresh_name():
        while other:
            n = other.pop()
            if n not in used_names:
                used_names.add(n)
                return n
        return None

    def tags(rt):
        return gen_tags(r, "gfa1", rt, can) if o["tags"] else []

    hdr = []
    if o["headers"]:
        if chance(r, 0.4):
            hdr.append(["H", [], [["VN", "Z", "1.0"]]])
        if chance(r, 0.3):
            # a custom tag repeated over several H lines with one datatype, plus
            # optionally a second tag on the first of those lines
            t = choice(r, "iZfAJHB")
            nm = choice(r, TAG_NAMES)
            lines_h = [["H", [], [[nm, t, gen_tag_value(r, t, can)]]] for _ in range(r.randint(1, 3))]
            if chance(r, 0.5):
                other_t = choice(r, "iZ")
                lines_h[0][2].append([choice(r, [n for n in TAG_NAMES if n != nm]), other_t,
                                      gen_tag_value(r, other_t, can)])
            hdr.extend(lines_h)
        if chance(r, 0.15):
            hdr.append(["H", [], [["VN", "Z", "1.0"]]])
    lines.extend(hdr)
    slen = {}
    for s in segs:
        t = tags("S")
        if chance(r, 0.6):
            n = r.randint(1, 12)
            seq = gen_sequence(r, n)
            slen[s] = n
            if chance(r, 0.4):
                t.append(["LN", "i", str(n)])
        else:
            seq = "*"
            if chance(r, 0.6):
                n = r.randint(1, 30)
                slen[s] = n
                t.append(["LN", "i", str(n)])
        lines.append(["S", [s, seq], t])
    # links
    links = {}  # form key -> record
    by_ends = {}  # normalised oriented end pair -> list of link records
    link_recs = []

    def ends_key(f, fo, t, to):
        return min((f, fo, t, to), (t, INV[to], f, INV[fo]))

    def add_link(f, fo, t, to, ov, with_tags=True):
        k = link_form_key(f, fo, t, to, ov)
        if k in links:
            return links[k]
        ek = ends_key(f, fo, t, to)
        have = by_ends.setdefault(ek, [])
        if have and (ov == "*" or any(x[1][4] == "*" for x in have)):
            return None  # never mix placeholder and specified overlaps on one end pair
        tg = tags("L") if with_tags else []
        if o["ids"] and chance(r, 0.25):
            n = fresh_name()
            if n:
                tg.append(["ID", "Z", n])
        rec = ["L", [f, fo, t, to, ov], tg]
        have.append(rec)
        links[k] = rec
        link_recs.append(rec)
        return rec

    for _ in range(r.randint(0, 2 * nseg)):
        add_link(choice(r, segs), choice(r, "+-"), choice(r, segs), choice(r, "+-"),
                 gen_overlap_gfa1(r, o["ops"]))
    conts = []
    if o["containments"]:
        for _ in range(r.randint(0, 2)):
            tg = tags("C")
            if o["ids"] and chance(r, 0.25):
                n = fresh_name()
                if n:
                    tg.append(["ID", "Z", n])
            conts.append(["C", [choice(r, segs), choice(r, "+-"), choice(r, segs), choice(r, "+-"),
                                str(r.randint(0, 20)), gen_overlap_gfa1(r, o["ops"])], tg])
    paths = []
    if o["paths"]:
        for _ in range(r.randint(0, 2)):
            pn = fresh_name()
            if pn is None:
                break
            n = r.randint(1, 4)
            walk = [(choice(r, [s for s in segs if "," not in s]), choice(r, "+-")) for _ in range(n)]
            circular = n >= 2 and chance(r, 0.25)
            steps = list(zip(walk, walk[1:])) + ([(walk[-1], walk[0])] if circular else [])
            ovs = []
            ok = True
            for (f, fo), (t, to) in steps:
                have = by_ends.get(ends_key(f, fo, t, to))
                if have:
                    p = choice(r, have)[1]
                    if (p[0], p[1], p[2], p[3]) == (f, fo, t, to):
                        ovs.append(p[4])
                    else:
                        ovs.append(complement_cigar(p[4]))
                else:
                    ov = gen_overlap_gfa1(r, o["ops"])
                    if chance(r, 0.5):
                        rec = add_link(f, fo, t, to, ov)
                    else:
                        rec = add_link(t, INV[to], f, INV[fo], complement_cigar(ov))
                    if rec is None:
                        ok = False
                        break
                    ovs.append(ov)
            if not ok:
                used_names.discard(pn)
                continue
            single = all(len(by_ends.get(ends_key(f, fo, t, to), [])) == 1 for (f, fo), (t, to) in steps)
            if not ovs or (all(x == "*" for x in ovs) and not circular and chance(r, 0.6)):
                ovf = "*"
            elif single and o.get("star_paths", True) and chance(r, 0.25):
                # overlaps left unspecified in the path although the links specify them
                # (valid: a placeholder matches any overlap; only when one link joins the ends)
                ovf = "*" if not circular else ",".join("*" for _ in ovs)
            else:
                ovf = ",".join(ovs)
            paths.append(["P", [pn, ",".join(s + o_ for s, o_ in walk), ovf], tags("P")])
    # a link given in both complement forms (documented: stored once, first wins)
    extra = []
    if o["both_forms"] and link_recs and chance(r, 0.3):
        rec = choice(r, link_recs)
        f, fo, t, to, ov = rec[1]
        extra.append(["L", [t, INV[to], f, INV[fo], complement_cigar(ov)],
                      [x for x in tags("L") if x[0] != "ID"]])
    lines.extend(link_recs)
    lines.extend(extra)
    lines.extend(conts)
    lines.extend(paths)
    if o["comments"]:
        for _ in range(r.randint(0, 2)):
            lines.insert(r.randint(0, len(lines)), ["#", [choice(r, [" a comment", "nospace", "  two", " with\ttab", "", " form\x0cfeed", " v\x0btab", " fs\x1c gs\x1d rs\x1e"])], []])
    if o["shuffle"] and chance(r, 0.5):
        # keep 'extra' after its original so that "first arrival wins" is well defined
        body = [l for l in lines if l not in extra]
        r.shuffle(body)
        for e in extra:
            body.append(e)
        lines = body
    return near_names(r, {"version": "gfa1", "lines": lines, "slen": slen}, p=o.get("near_names", 0.12))


# ------------------------------------------------------------------ GFA2 documents

KINDS = ["pfx0", "pfx", "whole", "inner", "inner0", "sfx", "sfx0"]


def interval(r, n, kind=None):
    """(beg, end) strings for a segment of length n, of the requested kind; '$' iff == n."""
    kind = kind or choice(r, KINDS)
    if n == 1 and kind in ("pfx", "inner", "inner0", "sfx"):
        kind = choice(r, ["pfx0", "whole", "sfx0"])
    if n == 2 and kind == "inner":
        kind = "inner0"
    if kind == "pfx0":
        b, e = 0, 0
    elif kind == "pfx":
        b, e = 0, r.randint(1, n - 1)
    elif kind == "whole":
        b, e = 0, n
    elif kind == "inner":
        b = r.randint(1, n - 2)
        e = r.randint(b + 1, n - 1)
    elif kind == "inner0":
        b = e = r.randint(1, n - 1)
    elif kind == "sfx":
        b, e = r.randint(1, n - 1), n
    else:
        b, e = n, n
    f = lambda p: "%d$" % p if p == n else str(p)
    return f(b), f(e), kind


def gen_alignment_gfa2(r):
    k = r.randrange(3)
    if k == 0:
        return "*"
    if k == 1:
        return gen_cigar(r, "MIDP")
    return ",".join(str(r.randint(0, 30)) for _ in range(r.randint(2, 4)))


def build_gfa2(r, opts=None):
    o = {"nseg": (1, 5), "canonical": False, "groups": True, "gaps": True, "fragments": True,
         "custom": True, "headers": True, "comments": True, "tags": True, "shuffle": True,
         "names": SEG_NAMES, "edges": True}
    o.update(opts or {})
    can = o["canonical"]
    lines = []
    nseg = r.randint(*o["nseg"])
    names = list(o["names"])
    r.shuffle(names)
    segs = names[:nseg]
    other = list(OTHER_NAMES)
    r.shuffle(other)
    used = set(segs)

    def fresh_name():
        while other:
            n = other.pop()
            if n not in used:
                used.add(n)
                return n
        return None

    def tags(rt):
        return gen_tags(r, "gfa2", rt, can) if o["tags"] else []

    if o["headers"]:
        if chance(r, 0.4):
            lines.append(["H", [], [["VN", "Z", "2.0"]]])
        if chance(r, 0.25):
            lines.append(["H", [], [["TS", "i", str(r.randint(1, 500))]]])
        if chance(r, 0.3):
            t = choice(r, "iZfAJHB")
            nm = choice(r, TAG_NAMES)
            for _ in range(r.randint(1, 3)):
                lines.append(["H", [], [[nm, t, gen_tag_value(r, t, can)]]])
    slen = {}
    for s in segs:
        if chance(r, 0.6):
            n = r.randint(1, 12)
            seq = gen_sequence(r, n)
        else:
            n = r.randint(1, 30)
            seq = "*"
        slen[s] = n
        lines.append(["S", [s, spell_int(r, n, True), seq], tags("S")])
    edges = []
    named = {"S": list(segs), "E": [], "G": [], "O": [], "U": []}
    if o["edges"]:
        for _ in range(r.randint(0, 2 * nseg)):
            s1, s2 = choice(r, segs), choice(r, segs)
            b1, e1, _k = interval(r, slen[s1])
            b2, e2, _k = interval(r, slen[s2])
            eid = "*"
            if chance(r, 0.6):
                n = fresh_name()
                if n:
                    eid = n
                    named["E"].append(n)
            tg = tags("E")
            if chance(r, 0.1):
                tg.append(["TS", "i", str(r.randint(1, 100))])
            edges.append(["E", [eid, s1 + choice(r, "+-"), s2 + choice(r, "+-"), b1, e1, b2, e2,
                                gen_alignment_gfa2(r)], tg])
    lines.extend(edges)
    if o["gaps"]:
        for _ in range(r.randint(0, 2)):
            gid = "*"
            if chance(r, 0.6):
                n = fresh_name()
                if n:
                    gid = n
                    named["G"].append(n)
            lines.append(["G", [gid, choice(r, segs) + choice(r, "+-"), choice(r, segs) + choice(r, "+-"),
                                spell_int(r, r.randint(-50, 500), True),
                                "*" if chance(r, 0.4) else str(r.randint(0, 100))], tags("G")])
    if (o["gaps"] or o["groups"]) and fair(r, o.get("zero_len", 0.0)):
        # a segment of length 0 (valid; an object that reports its length as len() is falsy), mentioned by a gap or a set
        z = fresh_name()
        if z:
            lines.append(["S", [z, "0", "*"], []])
            slen[z] = 0
            if o["gaps"] and (not o["groups"] or chance(r, 0.5)):
                lines.append(["G", ["*", z + choice(r, "+-"), choice(r, segs) + choice(r, "+-"), "5", "*"], []])
            else:
                lines.append(["U", ["*", z + " " + choice(r, segs)], []])
    if o["fragments"]:
        for _ in range(r.randint(0, 2)):
            s = choice(r, segs)
            b, e, _k = interval(r, slen[s])
            fb = r.randint(0, 20)
            fe = fb + r.randint(0, 20)
            lines.append(["F", [s, choice(r, ["read1", "read2", "ext:1"]) + choice(r, "+-"), b, e,
                                str(fb), str(fe) + ("$" if chance(r, 0.2) else ""),
                                gen_alignment_gfa2(r)], tags("F")])
    if o["groups"]:
        for _ in range(r.randint(0, 3)):
            if chance(r, 0.5):
                # ordered group over segments / edges / earlier ordered groups
                pool = named["S"] + named["E"] + named["O"] + named["G"]
                items = [choice(r, pool) + choice(r, "+-") for _ in range(r.randint(1, 4))]
                if all(i[:-1] in named["G"] for i in items):
                    items.append(choice(r, named["S"]) + "+")  # never a group of gaps only
                pid = "*"
                if chance(r, 0.7):
                    n = fresh_name()
                    if n:
                        pid = n
                lines.append(["O", [pid, " ".join(items)], tags("O")])
                if pid != "*":
                    named["O"].append(pid)
            else:
                pool = named["S"] + named["E"] + named["G"] + named["O"] + named["U"]
                items = [choice(r, pool) for _ in range(r.randint(1, 4))]
                if all(i in named["G"] for i in items):
                    items.append(choice(r, named["S"]))  # never a set of gaps only
                pid = "*"
                if chance(r, 0.7):
                    n = fresh_name()
                    if n:
                        pid = n
                lines.append(["U", [pid, " ".join(items)], tags("U")])
                if pid != "*":
                    named["U"].append(pid)
    if o.get("split_groups"):
        # the definition of a named group spread over two lines with the same identifier (documented: the items
        # are concatenated in arrival order, the tags united); the first of the two lines keeps the tags
        for l in list(lines):
            if l[0] in "OU" and l[1][0] != "*" and " " in l[1][1] and fair(r, o["split_groups"]):
                its = l[1][1].split(" ")
                k = r.randint(1, len(its) - 1)
                if l[0] == "U" and all(x in named["G"] for x in its[:k]) or l[0] == "O" and all(x[:-1] in named["G"] for x in its[:k]):
                    continue
                l[1][1] = " ".join(its[:k])
                lines.insert(lines.index(l) + 1 + r.randint(0, 2), [l[0], [l[1][0], " ".join(its[k:])], []])
    if o["custom"]:
        for _ in range(r.randint(0, 2)):
            nf = r.randint(0, 3)
            fields = []
            for _i in range(nf):
                f = gen_string(r, 6)
                if G.TAG_RE.fullmatch(f):
                    f = "v" + f
                fields.append(f)
            tg = tags("X")
            if o.get("custom_tagshaped", True) and fair(r, 0.25):
                # a positional field that has the shape of a tag but cannot be one: its name is used again by a
                # tag further right, or its value is not one of its datatype
                if tg and chance(r, 0.5):
                    n_, t_, _v = choice(r, tg)
                    t2 = choice(r, "iZ")
                    fields.append("%s:%s:%s" % (n_, t2, "7" if t2 == "i" else "w"))
                else:
                    fields.append(choice(r, ["xx:B:c,300", "xx:i:1x", "xx:J:{bad", "xx:H:0G", "xx:f:1.2.3", "xx:A:ab", "xx:B:q,3",
                                             # (not numbers of the grammar, although int() / float() read them)
                                             "xx:i:1_0", "xx:i: 5", "xx:f:inf", "xx:f:1.", "xx:f:1_0.5", "xx:f:nan", "xx:i:\u0663"]))
            lines.append([choice(r, CUSTOM_TYPES), fields, tg])
            if o.get("twin_custom") and fair(r, o["twin_custom"]):
                lines.append([lines[-1][0], list(fields), [list(t) for t in tg]])  # the same custom record once more
    if o["comments"]:
        for _ in range(r.randint(0, 2)):
            lines.insert(r.randint(0, len(lines)), ["#", [choice(r, [" a comment", "nospace", "  two", "", " form\x0cfeed", " v\x0btab", " fs\x1c gs\x1d rs\x1e"])], []])
    if o["shuffle"] and chance(r, 0.5):
        r.shuffle(lines)
    return near_names(r, {"version": "gfa2", "lines": lines, "slen": slen}, p=o.get("near_names", 0.12))


def near_names(r, doc, p=0.3, suffixes=("L", "R", "L", "R", "_", "2", "^", "0")):
    """With probability p rename one segment of the document to another segment's name plus a
    suffix (A and AL, 7 and 7R, a and a_): names that collide once a library glues an end
    type, an orientation, a counter or a separator onto an identifier.  The renaming is done
    on the text model, so every mention follows."""
    from . import model as M
    if not fair(r, p):
        return doc
    m = M.ModelDoc.from_doc(doc)
    segs = m.segment_names()
    if len(segs) < 2:
        return doc
    a, b = choice(r, segs), choice(r, segs)
    if a == b:
        return doc
    new = a + choice(r, list(suffixes))
    if chance(r, 0.35):
        # ... or to a word that a program prints for a missing or special value (str(None) and the like)
        new = choice(r, ["None", "None", "null", "nan", "True", "inf"])
    if new.endswith("_") and len(segs) >= 3 and chance(r, 0.7):
        # the name a merged segment a_c would get
        new += choice(r, [x for x in segs if x not in (a, b)])
    if new in set(m.names()) | m.undefined_mentions() or ("," in new):
        return doc
    m.rename(m.by_name(b), new)
    doc["lines"] = [x.plain() for x in m.recs]
    if "slen" in doc and b in doc["slen"]:
        doc["slen"][new] = doc["slen"].pop(b)
    doc["near_names"] = True
    return doc


def doc_text(doc):
    return "\n".join(G.Rec.from_plain(l, doc["version"]).text() for l in doc["lines"])


def doc_lines(doc):
    return [G.Rec.from_plain(l, doc["version"]).text() for l in doc["lines"]]


# ------------------------------------------------------------------ strategies

def st_from_builder(fn, *args, **kw):
    @st.composite
    def s(draw):
        r = draw(st.randoms(use_true_random=False))
        return fn(r, *args, **kw)
    return s()


def st_doc(version=None, opts=None):
    @st.composite
    def s(draw):
        r = draw(st.randoms(use_true_random=False))
        v = version or choice(r, ["gfa1", "gfa2"])
        return build_gfa1(r, opts) if v == "gfa1" else build_gfa2(r, opts)
    return s()
