#!/venv/bin/python
"""Coverage-guided fuzzing of the C07 oracle (Atheris / libFuzzer).

    python -m vf.fuzz.c07_atheris OUT_JSON [libFuzzer options...]

The target decodes the bytes into (configuration, text) - either raw text or a corpus
document (tests/testdata + generated ones) with byte-directed point mutations - and runs
the same oracle as the Hypothesis parts of C07 (vf/props/c07.py: Guard). A leak is
appended to OUT_JSON (signature, input, config) and the process goes on, so one campaign
enumerates several root causes; the caller turns the first one into a replay file.
"""
import json
import os
import sys

HERE = os.path.dirname(os.path.dirname(os.path.dirname(os.path.abspath(__file__))))
sys.path.insert(0, HERE)
sys.path.insert(0, os.path.join(HERE, ".deps"))
import atheris  # noqa: E402

with atheris.instrument_imports(include=["gfapy"]):
    from vf import env  # noqa: F401
    import gfapy  # noqa: F401
from vf.props import c07  # noqa: E402
from vf import gen  # noqa: E402
import random  # noqa: E402

OUT = sys.argv[1]
LEAKS = {}
_r = random.Random(12345)
CORPUS = list(c07.testdata())
for _i in range(40):
    _v = "gfa1" if _i % 2 else "gfa2"
    _d = gen.build_gfa1(_r, {"nseg": (1, 3)}) if _v == "gfa1" else gen.build_gfa2(_r, {"nseg": (1, 3)})
    CORPUS.append(gen.doc_text(_d))


class ByteRandom:
    """random.Random-like object fed by the fuzzer's bytes (so mutations are byte-directed)."""

    def __init__(self, fdp):
        self.fdp = fdp

    def randrange(self, a, b=None):
        if b is None:
            a, b = 0, a
        if b <= a:
            return a
        return self.fdp.ConsumeIntInRange(a, b - 1)

    def randint(self, a, b):
        return self.fdp.ConsumeIntInRange(a, b)

    def random(self):
        return self.fdp.ConsumeIntInRange(0, 9999) / 10000.0

    def shuffle(self, x):
        for i in range(len(x) - 1, 0, -1):
            j = self.fdp.ConsumeIntInRange(0, i)
            x[i], x[j] = x[j], x[i]


def one_input(data):
    fdp = atheris.FuzzedDataProvider(data)
    cfg = {"vlevel": fdp.ConsumeIntInRange(0, 3), "version": [None, None, "gfa1", "gfa2"][fdp.ConsumeIntInRange(0, 3)],
           "dialect": [None, None, None, "rgfa"][fdp.ConsumeIntInRange(0, 3)], "entry": ["str", "list"][fdp.ConsumeIntInRange(0, 1)]}
    mode = fdp.ConsumeIntInRange(0, 2)
    as_ = "doc" if fdp.ConsumeBool() else "line"
    if mode == 0:
        text = fdp.ConsumeUnicodeNoSurrogates(200)
    else:
        base = CORPUS[fdp.ConsumeIntInRange(0, len(CORPUS) - 1)]
        k = fdp.ConsumeIntInRange(1, 3)
        text = c07.mutate_text(ByteRandom(fdp), base, k)
        if as_ == "line":
            ls = text.split("\n")
            text = ls[fdp.ConsumeIntInRange(0, len(ls) - 1)] if ls else ""
    case = {"text": text, "as": as_, "cfg": cfg}
    try:
        c07.prop_text(case)
    except c07.Violation as v:
        sig = v.shape
        if sig not in LEAKS:
            LEAKS[sig] = {"signature": sig, "case": case, "message": v.msg[:2000]}
            with open(OUT, "w") as f:
                json.dump(list(LEAKS.values()), f, indent=1)


def main():
    with open(OUT, "w") as f:
        json.dump([], f)
    atheris.Setup([sys.argv[0]] + sys.argv[2:], one_input)
    atheris.Fuzz()


if __name__ == "__main__":
    main()
