#!/venv/bin/python
"""Coverage-guided fuzzing of any Hypothesis part of a check (Atheris / libFuzzer).

    python -m vf.fuzz.generic MODULE PART OUT_JSON [libFuzzer options...]

libFuzzer's bytes drive the part's own case generator: the strategies of the checks are
`@st.composite` functions whose only source of choices is a `random.Random`-like object
(plus a few booleans / integers / texts), so the composite's definition is called directly
with a `draw` that hands out a `ByteRandom` fed by the fuzzer's bytes (Hypothesis'
`fuzz_one_input` rejects nearly every byte string for generators that make hundreds of
draws).  gfapy is imported under Atheris' instrumentation and the part's oracle runs inside
the target.  Violations are appended to OUT_JSON (one per signature: sub/shape) together with
the plain-data case, and the campaign goes on; the caller re-checks each case with the
plain oracle, which makes it an ordinary replay file.
"""
import importlib
import json
import os
import sys

HERE = os.path.dirname(os.path.dirname(os.path.dirname(os.path.abspath(__file__))))
sys.path.insert(0, HERE)
sys.path.insert(0, os.path.join(HERE, ".deps"))
import atheris  # noqa: E402

with atheris.instrument_imports(include=["gfapy"]):
    from vf import env  # noqa: F401
    import gfapy  # noqa: F401
from vf import runner  # noqa: E402


class ByteRandom:
    """random.Random-like object fed by the fuzzer's bytes (exhausted input yields zeros)."""

    def __init__(self, fdp):
        self.fdp = fdp
        self._vf_fair = False  # (vf/gen.py: raw draws, so that a byte is a choice)

    def randrange(self, a, b=None):
        if b is None:
            a, b = 0, a
        if b <= a:
            return a
        return self.fdp.ConsumeIntInRange(a, b - 1)

    def randint(self, a, b):
        return self.fdp.ConsumeIntInRange(a, b) if b > a else a

    def random(self):
        return self.fdp.ConsumeIntInRange(0, 65535) / 65536.0

    def getrandbits(self, k):
        return self.fdp.ConsumeIntInRange(0, (1 << k) - 1)

    def shuffle(self, x):
        for i in range(len(x) - 1, 0, -1):
            j = self.fdp.ConsumeIntInRange(0, i)
            x[i], x[j] = x[j], x[i]

    def choice(self, seq):
        return seq[self.randrange(len(seq))]


class Unsupported(Exception):
    pass


def make_draw(fdp):
    from hypothesis.strategies._internal.core import CompositeStrategy

    def draw(s):
        fn = getattr(s, "function", None)
        name = getattr(fn, "__name__", None)
        if name == "randoms":
            return ByteRandom(fdp)
        if name == "booleans":
            return fdp.ConsumeBool()
        args = getattr(s, "_LazyStrategy__args", ())
        kw = getattr(s, "_LazyStrategy__kwargs", {})
        if name == "integers":
            lo = kw.get("min_value", args[0] if args else 0)
            hi = kw.get("max_value", args[1] if len(args) > 1 else 2 ** 31)
            return fdp.ConsumeIntInRange(lo, hi)
        if name == "text":
            alpha = kw.get("alphabet", args[0] if args else None)
            if not isinstance(alpha, str) or not alpha:
                raise Unsupported("text without a literal alphabet")
            n = fdp.ConsumeIntInRange(kw.get("min_size", 0), kw.get("max_size", 20) or 20)
            return "".join(alpha[fdp.ConsumeIntInRange(0, len(alpha) - 1)] for _ in range(n))
        w = getattr(s, "wrapped_strategy", s)
        if isinstance(w, CompositeStrategy):
            return w.definition(draw, *w.args, **w.kwargs)
        raise Unsupported(name or type(s).__name__)
    return draw

MOD, PART, OUT = sys.argv[1], sys.argv[2], sys.argv[3]
mod = importlib.import_module("vf.props." + MOD.lower())
part = [p for p in mod.parts("thorough") if p.name == PART][0]
FOUND = {}
STATS = {"cases": 0, "nontrivial": 0}


def _record(case, sub, shape, msg):
    sig = "%s/%s" % (sub, shape)
    if sig not in FOUND:
        FOUND[sig] = {"signature": sig, "case": case, "sub": sub, "shape": shape, "message": msg[:2000]}
        _dump()


def _dump():
    with open(OUT, "w") as f:
        json.dump({"stats": STATS, "found": list(FOUND.values())}, f, indent=1, default=str)


def one_input(data):
    fdp = atheris.FuzzedDataProvider(data)
    case = make_draw(fdp)(part.strategy)
    test(case)


def test(case):
    STATS["cases"] += 1
    try:
        labels = part.prop(case)
        if labels and labels.get("nt"):
            STATS["nontrivial"] += 1
    except runner.Violation as v:
        _record(case, v.sub, v.shape, v.msg)
    except Exception as e:
        v = runner._sut_failure(e)
        if v is None:
            _record(case, "harness", type(e).__name__, repr(e))
        else:
            _record(case, v.sub, v.shape, v.msg)
    if STATS["cases"] % 20 == 0:
        _dump()


def main():
    _dump()
    atheris.Setup([sys.argv[0]] + sys.argv[4:], one_input)
    try:
        atheris.Fuzz()
    finally:
        _dump()


if __name__ == "__main__":
    main()
