import sys
from vf.runner import main
sys.exit(main())
