"""Import gfapy from the tree under test (default /repo, override VERIF_GFAPY_ROOT).

gfapy is pure Python, so "rebuilding from the current working tree" is importing it
in a fresh process with that tree first on sys.path.  We assert that the module
really comes from there.  Set GFAPY_VERIF=1 (the hook guard; no hooks are needed,
the variable is exported for completeness).
"""
import os
import sys

ROOT = os.path.abspath(os.environ.get("VERIF_GFAPY_ROOT", "/repo"))
os.environ.setdefault("GFAPY_VERIF", "1")
if ROOT in sys.path:
    sys.path.remove(ROOT)
sys.path.insert(0, ROOT)
# never pick up byte code from another tree
sys.dont_write_bytecode = True

import gfapy  # noqa: E402

_f = os.path.abspath(gfapy.__file__)
if not _f.startswith(ROOT + os.sep):
    sys.stderr.write("HARNESS ERROR: gfapy imported from %s, expected under %s\n" % (_f, ROOT))
    sys.exit(2)

GfapyError = gfapy.Error
