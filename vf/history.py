"""Model-based mutation histories.

``gen_history(r, version, opts)`` simulates the text-level model while it draws
operations, so every step is legal (or deliberately illegal, for C08/C09) and the
produced history is a list of *concrete* operations (plain data, replayable without
Hypothesis).  ``Runner`` applies a history to a real gfapy.Gfa and to the model in
lock-step.

Operations
    ["load", [line, ...]]                 Gfa(text) of a generated valid document
    ["add", line, as_instance]            gfa.add_line(text | gfapy.Line(text))
    ["rm", name]                          gfa.rm(name)
    ["rm_i", index]                       gfa.rm(line instance)   (index into model.recs)
    ["disc", index]                       line.disconnect()
    ["readd", index, how[, edit]]         gfa.rm(line) | line.disconnect(), [E line: beg/end set to new intervals], then
                                          gfa.add_line(the same object)
    ["item", index, how, arg, as_line]    group.add_item/rm_item/append_item/prepend_item/rm_first_item/rm_last_item
    ["rename", index, new]                line.name = new
    ["rename_pending", index, name]       line.name = <an identifier that is mentioned and not defined>: refused
    ["set_tag", index, name, type, val]   line.set_datatype + line.set (val None = delete)
"""
from . import gen
from . import grammar as G
from . import model as M
from .env import gfapy

INV = M.INV

# type-segregated identifier pools: an undefined identifier is only ever mentioned
# where a record of its pool's type may stand
POOL = {
    "S": ["A", "B", "C", "D", "s1", "2", "x.y", "n*"],
    "E": ["e1", "e2", "e3", "e4", "e5", "e6"],
    "G": ["g1", "g2", "g3"],
    "O": ["o1", "o2", "o3", "o4"],
    "U": ["u1", "u2", "u3", "u4"],
    "P": ["p1", "p2", "p3", "p4"],
    "ID": ["l1", "l2", "l3", "c1", "c2"],
}
FRESH = ["n%d" % i for i in range(1, 40)]
PLANNED_LEN = {"A": 10, "B": 7, "C": 12, "D": 1, "s1": 5, "2": 9, "x.y": 3, "n*": 20}


class GenState:
    """What the generator knows while it builds a history."""

    def __init__(self, version):
        self.version = version
        self.model = M.ModelDoc(version)
        self.ov_policy = {}  # ends_key -> '*' | 'spec'
        self.fresh = list(FRESH)
        self.slen = dict(PLANNED_LEN)
        self.seq = {}
        self.group_bias = 0.0  # extra probability that a new GFA2 record is a group line
        self.was_pending = set()  # identifiers that were mentioned before they were defined

    def names(self):
        return set(self.model.names())

    def undefined(self):
        return self.model.undefined_mentions()

    def free_name(self, kind, r, allow_undefined=True):
        """An identifier of the pool `kind` that is not defined (maybe already mentioned)."""
        used = self.names()
        und = self.undefined()
        cands = [n for n in POOL[kind] if n not in used and (allow_undefined or n not in und)]
        if not cands:
            while self.fresh:
                n = self.fresh.pop(0)
                if n not in used and n not in und:
                    return n
            return None
        # prefer defining something that is pending
        pend = [n for n in cands if n in und]
        if pend and gen.chance(r, 0.7):
            return gen.choice(r, pend)
        return gen.choice(r, cands)


def seg_len(st, name):
    # the planned sequence (if any) and the planned length always agree
    if name in st.seq:
        st.slen[name] = len(st.seq[name])
    return st.slen.setdefault(name, 8)


def pick_segment(st, r, p_undefined=0.15):
    segs = st.model.segment_names()
    if segs and not gen.chance(r, p_undefined):
        return gen.choice(r, segs)
    taken = set(st.model.names()) - set(segs)
    cands = [n for n in POOL["S"] if n not in taken]
    return gen.choice(r, cands or segs or POOL["S"])


def pick_pair(st, r):
    """Two segments for a line that joins two; now and then the same one (circular line),
    also when it is not defined yet."""
    a = pick_segment(st, r)
    if gen.chance(r, 0.12):
        return a, a
    return a, pick_segment(st, r)


def new_segment(st, r, name, tags=True):
    if name in st.seq:
        st.slen[name] = len(st.seq[name])
    n = seg_len(st, name)
    tg = gen.gen_tags(r, st.version, "S", True, maxn=2) if tags else []
    if st.version == "gfa1":
        if gen.chance(r, 0.6):
            seq = st.seq.setdefault(name, gen.gen_sequence(r, n))
            if gen.chance(r, 0.4):
                tg.append(["LN", "i", str(n)])
        else:
            seq = "*"
            if gen.chance(r, 0.7):
                tg.append(["LN", "i", str(n)])
        return ["S", [name, seq], tg]
    seq = st.seq.setdefault(name, gen.gen_sequence(r, n)) if gen.chance(r, 0.6) else "*"
    return ["S", [name, str(n), seq], tg]


def new_link(st, r, tags=True):
    for _ in range(6):
        f, t = pick_pair(st, r)
        fo, to = gen.choice(r, "+-"), gen.choice(r, "+-")
        ek = M.ends_key(f, fo, t, to)
        pol = st.ov_policy.get(ek)
        if pol == "*":
            ov = "*"
        elif pol == "spec":
            ov = gen.gen_cigar(r, "MIDP=XH")
        else:
            ov = gen.gen_overlap_gfa1(r)
        if st.model.has_equivalent_link((f, fo, t, to, ov)):
            continue
        st.ov_policy[ek] = "*" if ov == "*" else "spec"
        tg = gen.gen_tags(r, "gfa1", "L", True, maxn=2) if tags else []
        if gen.chance(r, 0.2):
            n = st.free_name("ID", r, allow_undefined=False)
            if n:
                tg.append(["ID", "Z", n])
        return ["L", [f, fo, t, to, ov], tg]
    return None


def new_containment(st, r):
    tg = gen.gen_tags(r, "gfa1", "C", True, maxn=2)
    if gen.chance(r, 0.2):
        n = st.free_name("ID", r, allow_undefined=False)
        if n:
            tg.append(["ID", "Z", n])
    a, b = pick_pair(st, r)
    return ["C", [a, gen.choice(r, "+-"), b, gen.choice(r, "+-"),
                  str(r.randint(0, 9)), gen.gen_overlap_gfa1(r)], tg]


def new_path(st, r):
    pn = st.free_name("P", r, allow_undefined=False)
    if pn is None:
        return None
    n = r.randint(1, 4)
    walk = []
    links = [x for x in st.model.recs if x.rt == "L"]
    if links and gen.chance(r, 0.3):
        # a path over a link that is there already, in the direction it is written or in the other one -
        # preferably a link whose segments are not defined yet
        und = st.undefined()
        pend = [x for x in links if x.pos[0] in und or x.pos[2] in und]
        l_ = gen.choice(r, pend) if pend and gen.chance(r, 0.6) else gen.choice(r, links)
        f_, fo_, t_, to_ = l_.pos[:4]
        walk = [(f_, fo_), (t_, to_)] if gen.chance(r, 0.5) else [(t_, INV[to_]), (f_, INV[fo_])]
        n = 2
    und_ = st.undefined()
    for _ in range(n - len(walk)):
        again = [w for w in walk if w[0] in und_]
        if again and gen.chance(r, 0.45):
            walk.append((gen.choice(r, again)[0], gen.choice(r, "+-")))  # a segment that is not defined yet, visited again
        elif walk and gen.chance(r, 0.25):
            walk.append((gen.choice(r, walk)[0], gen.choice(r, "+-")))  # a segment visited again
        else:
            walk.append((pick_segment(st, r, 0.1), gen.choice(r, "+-")))
    circular = n >= 2 and gen.chance(r, 0.2)
    steps = list(zip(walk, walk[1:])) + ([(walk[-1], walk[0])] if circular else [])
    idx = st.model.link_index()
    ovs = []
    for (f, fo), (t, to) in steps:
        ek = M.ends_key(f, fo, t, to)
        have = idx.get(ek)
        if have:
            p = gen.choice(r, have).pos
            ovs.append(p[4] if tuple(p[:4]) == (f, fo, t, to) else M.complement_cigar(p[4]))
        else:
            pol = st.ov_policy.get(ek)
            if pol is None:
                pol = "*" if gen.chance(r, 0.5) else "spec"
            if pol == "*":
                ovs.append("*")
            else:
                # a link required by an earlier path on the same ends must be the same link
                prev = None
                for pr in st.model.recs:
                    if pr.rt == "P":
                        for s_ in M.path_steps(pr):
                            if M.ends_key(*s_[:4]) == ek and s_[4] != "*":
                                prev = s_
                if prev is not None:
                    ovs.append(prev[4] if tuple(prev[:4]) == (f, fo, t, to) else M.complement_cigar(prev[4]))
                else:
                    ovs.append(gen.gen_cigar(r, "MIDP=XH"))
            st.ov_policy[ek] = pol
    if not ovs or (all(x == "*" for x in ovs) and not circular and gen.chance(r, 0.6)):
        ovf = "*"
    else:
        ovf = ",".join(ovs)
    return ["P", [pn, ",".join(s + o for s, o in walk), ovf], gen.gen_tags(r, "gfa1", "P", True, maxn=1)]


def new_edge(st, r):
    s1, s2 = pick_pair(st, r)
    b1, e1, _k = gen.interval(r, seg_len(st, s1))
    b2, e2, _k = gen.interval(r, seg_len(st, s2))
    eid = "*"
    if gen.chance(r, 0.7):
        eid = st.free_name("E", r) or "*"
    return ["E", [eid, s1 + gen.choice(r, "+-"), s2 + gen.choice(r, "+-"), b1, e1, b2, e2,
                  gen.gen_alignment_gfa2(r)], gen.gen_tags(r, "gfa2", "E", True, maxn=2)]


def new_gap(st, r):
    gid = "*"
    if gen.chance(r, 0.7):
        gid = st.free_name("G", r) or "*"
    a, b = pick_pair(st, r)
    return ["G", [gid, a + gen.choice(r, "+-"), b + gen.choice(r, "+-"),
                  str(r.randint(-20, 200)), "*" if gen.chance(r, 0.4) else str(r.randint(0, 50))],
            gen.gen_tags(r, "gfa2", "G", True, maxn=1)]


def new_fragment(st, r):
    s = pick_segment(st, r)
    b, e, _k = gen.interval(r, seg_len(st, s))
    fb = r.randint(0, 9)
    return ["F", [s, gen.choice(r, ["read1", "read2"]) + gen.choice(r, "+-"), b, e, str(fb),
                  str(fb + r.randint(0, 9)), gen.gen_alignment_gfa2(r)],
            gen.gen_tags(r, "gfa2", "F", True, maxn=1)]


def _rank(name):
    for i, k in enumerate(["S", "E", "G", "O", "U"]):
        if name in POOL[k]:
            return i, POOL[k].index(name)
    return (-1, 0)


def new_group(st, r, kind, pid=None):
    if pid is None:
        pid = "*"
        if gen.chance(r, 0.75):
            pid = st.free_name(kind, r) or "*"
    defined = st.names()
    # items: defined names or pool names of a type that may stand there; only strictly
    # lower-ranked groups, so nesting is a DAG whatever the order of definition
    pools = ["S", "E", "G", "O"] if kind == "O" else ["S", "E", "G", "O", "U"]
    cands = []
    for k in pools:
        for n in POOL[k]:
            if pid != "*" and k in ("O", "U") and _rank(n) >= _rank(pid):
                continue
            if pid == "*" and k == kind:
                continue
            if n == pid:
                continue  # a group never mentions itself (a renamed group may carry any pool's name)
            if n in defined or gen.chance(r, 0.08):
                cands.append(n)
    # never an identifier that is defined as a record of another type than its pool
    cands = [n for n in cands if st.model.by_name(n) is None or st.model.by_name(n).rt in pools]
    if not cands:
        return None
    k = r.randint(1, 4)
    if kind == "O":
        items = [gen.choice(r, cands) + gen.choice(r, "+-") for _ in range(k)]
        if all(n[:-1] in POOL["G"] or (st.model.by_name(n[:-1]) is not None and st.model.by_name(n[:-1]).rt == "G")
               for n in items):
            nong = [n for n in cands if n not in POOL["G"] and
                    (st.model.by_name(n) is None or st.model.by_name(n).rt != "G")]
            if not nong:
                return None
            items.append(gen.choice(r, nong) + "+")
    else:
        items = [gen.choice(r, cands) for _ in range(k)]
        if all(n in POOL["G"] or (st.model.by_name(n) is not None and st.model.by_name(n).rt == "G")
               for n in items):
            # a set must not become empty when its gaps are removed (unspecified outcome)
            nong = [n for n in cands if n not in POOL["G"] and
                    (st.model.by_name(n) is None or st.model.by_name(n).rt != "G")]
            if not nong:
                return None
            items.append(gen.choice(r, nong))
    return [kind, [pid, " ".join(items)], gen.gen_tags(r, "gfa2", kind, True, maxn=3)]


def continue_group(st, r):
    """A further line of an existing named group (GFA2: groups may be defined in several
    lines with the same identifier): new items, tags that the group does not have yet."""
    cands = [x for x in st.model.recs if x.rt in ("O", "U") and x.pos[0] != "*"]
    if not cands:
        return None
    g = gen.choice(r, cands)
    mentioned = set(m_[0] for x in st.model.recs for m_ in M.mentions(x))
    inner = [x for x in cands if x.pos[0] in mentioned]
    if inner and gen.chance(r, 0.6):
        g = gen.choice(r, inner)  # a group which is an item of another group
    line = new_group(st, r, g.rt, pid=g.pos[0])
    if line is None:
        return None
    have = set(t[0] for t in g.tags)
    line[2] = [t for t in line[2] if t[0] not in have]
    return line


def item_edit(st, r):
    """An edit of the item list of a U/O group through the item-editing methods."""
    groups = [i for i, x in enumerate(st.model.recs) if x.rt in ("O", "U")]
    if not groups:
        return None
    i = gen.choice(r, groups)
    g = st.model.recs[i]
    items = g.pos[1].split(" ")
    if gen.chance(r, 0.45) and len(items) >= 2:
        if g.rt == "O":
            how = gen.choice(r, ["rm_first_item", "rm_last_item"])
            rest = items[1:] if how == "rm_first_item" else items[:-1]
            arg = None
        else:
            arg = gen.choice(r, items)
            k = items.index(arg)
            rest = items[:k] + items[k + 1:]
            how = "rm_item"
        names = [x[:-1] if g.rt == "O" else x for x in rest]
        if all(n in POOL["G"] or (st.model.by_name(n) is not None and st.model.by_name(n).rt == "G") for n in names):
            return None  # never a group of gaps only
        g.pos[1] = " ".join(rest)
        return ["item", i, how, arg, False]
    line = new_group(st, r, g.rt, pid=g.pos[0] if g.pos[0] != "*" else None)
    if line is None or (g.pos[0] == "*" and line[1][0] != "*"):
        # (new_group may have drawn a name for an unnamed group: only its items are used)
        if line is None:
            return None
    new = line[1][1].split(" ")[0]
    nm = new[:-1] if g.rt == "O" else new
    if nm == g.pos[0]:
        return None
    if g.rt == "O":
        how = gen.choice(r, ["append_item", "prepend_item"])
        g.pos[1] = " ".join(items + [new]) if how == "append_item" else " ".join([new] + items)
    else:
        how = "add_item"
        g.pos[1] = " ".join(items + [new])
    defined = st.model.by_name(nm) is not None
    return ["item", i, how, new, defined and gen.chance(r, 0.4)]


def duplicate_record(st, r):
    """A textual copy of an existing record of a kind that may legally occur twice
    (containments, unnamed edges and gaps, fragments): identical dependants."""
    cands = [x for x in st.model.recs if (x.rt == "C" and x.tag("ID") is None) or x.rt == "F" or
             (x.rt in ("E", "G") and x.pos[0] == "*")]
    if not cands:
        return None
    return gen.choice(r, cands).plain()


def new_record(st, r):
    """A record that may legally be added to the current model state, or None."""
    if gen.chance(r, 0.08):
        d = duplicate_record(st, r)
        if d is not None:
            return d
    if st.version == "gfa1":
        k = r.randrange(10)
        if k < 3 or not st.model.segments():
            n = st.free_name("S", r)
            return new_segment(st, r, n) if n else None
        if k < 6:
            return new_link(st, r)
        if k < 7:
            return new_containment(st, r)
        if k < 9:
            return new_path(st, r)
        return ["#", [" c%d" % r.randint(0, 9)], []]
    k = r.randrange(14)
    if st.group_bias and st.model.segments() and gen.chance(r, st.group_bias):
        k = r.randint(8, 11)
    if k < 3 or not st.model.segments():
        n = st.free_name("S", r)
        return new_segment(st, r, n) if n else None
    if k < 6:
        return new_edge(st, r)
    if k < 7:
        return new_gap(st, r)
    if k < 8:
        return new_fragment(st, r)
    if k < 12 and gen.chance(r, 0.3):
        c = continue_group(st, r)
        if c is not None:
            return c
    if k < 10:
        return new_group(st, r, "O")
    if k < 12:
        return new_group(st, r, "U")
    if k < 13:
        return [gen.choice(r, gen.CUSTOM_TYPES), [gen.gen_string(r, 4).replace(":", "_") or "f"],
                gen.gen_tags(r, "gfa2", "X", True, maxn=1)]
    return ["#", [" c%d" % r.randint(0, 9)], []]


def model_add(st, line):
    rec = G.Rec.from_plain(line, st.version)
    nm = M.name_of(rec)
    if nm is not None and nm in st.model.undefined_mentions():
        st.was_pending.add(nm)
    return st.model.add(rec)


def removable(st):
    return [i for i, rec in enumerate(st.model.recs) if rec.rt != "H"]


def gen_history(r, version, opts=None):
    o = {"steps": (4, 25), "p_rm": 0.25, "p_rename": 0.1, "p_tag": 0.0, "close": False,
         "load": 0.5, "instance": 0.3, "p_readd": 0.04, "group_bias": 0.0}
    o.update(opts or {})
    st = GenState(version)
    st.group_bias = o["group_bias"] if version == "gfa2" else 0.0
    ops = []
    if gen.chance(r, o["load"]):
        # start from a small valid document over the same pools
        doc = gen.build_gfa1(r, {"names": POOL["S"], "nseg": (1, 4), "both_forms": False, "headers": False,
                                  "ids": False, "shuffle": False, "comments": False}) if version == "gfa1" else \
            gen.build_gfa2(r, {"names": POOL["S"], "nseg": (1, 4), "headers": False, "shuffle": False,
                                "comments": False, "groups": False, "custom_tagshaped": False, "zero_len": 0})
        # re-plan lengths to what the document says
        for l in doc["lines"]:
            if l[0] == "S":
                st.slen[l[1][0]] = doc["slen"].get(l[1][0], st.slen.get(l[1][0], 8))
                seq = l[1][1] if version == "gfa1" else l[1][2]
                if seq != "*":
                    st.seq[l[1][0]] = seq
                    st.slen[l[1][0]] = len(seq)
        for l in doc["lines"]:
            rec = model_add(st, l)
            if rec.rt == "L":
                st.ov_policy[M.ends_key(*rec.pos[:4])] = "*" if rec.pos[4] == "*" else "spec"
        # names used by the generic builder for edges etc. may collide with our pools: fine,
        # they are simply defined names now
        ops.append(["load", doc["lines"]])
    if o.get("circular_first") and gen.fair(r, o["circular_first"]):
        # a circular line on a segment that is not defined yet (both references of the line wait
        # for the same placeholder)
        free = [n for n in POOL["S"] if n not in st.names() and n not in st.undefined()]
        if free:
            u = gen.choice(r, free)
            if version == "gfa1":
                line = ["L", [u, gen.choice(r, "+-"), u, gen.choice(r, "+-"), gen.choice(r, ["*", "4M", "2M1D1M"])], []]
                st.ov_policy[M.ends_key(*line[1][:4])] = "*" if line[1][4] == "*" else "spec"
            else:
                n_ = seg_len(st, u)
                b1, e1, _k = gen.interval(r, n_)
                b2, e2, _k = gen.interval(r, n_)
                line = ["E", ["*", u + gen.choice(r, "+-"), u + gen.choice(r, "+-"), b1, e1, b2, e2, "*"], []]
            model_add(st, line)
            ops.append(["add", line, gen.chance(r, o["instance"])])
    nsteps = r.randint(*o["steps"])
    # (histories that are closed at the end: in two of five a few more steps follow an intermediate closing, so that
    #  lines which were defined late - they replaced placeholders - are renamed or removed afterwards as well)
    extra = r.randint(1, 3) if o["close"] and gen.chance(r, 0.4) else 0
    for step_i in range(nsteps + extra):
        x = r.random()
        if step_i == nsteps:
            close_history(st, r, ops)
        if step_i >= nsteps:
            x = (o["p_rm"] + r.random() * o["p_rename"]) if gen.chance(r, 0.7) else r.random() * o["p_rm"]
        rem = removable(st)
        if rem and gen.fair(r, o["p_readd"]):
            # the same line object leaves the Gfa and comes back
            i = gen.choice(r, rem)
            busy = [j for j in rem if st.model.recs[j].rt == "S" and len(st.model.dependants(st.model.recs[j])) >= 2]
            if busy and gen.chance(r, 0.5):
                i = gen.choice(r, busy)  # a segment with several kinds of dependants: they go, it returns alone
            edges_ = [j for j in rem if st.model.recs[j].rt == "E"]
            if edges_ and gen.chance(r, 0.35):
                i = gen.choice(r, edges_)
            rec = st.model.recs[i]
            op = ["readd", i, gen.choice(r, ["rm", "disc"])]
            if rec.rt == "E" and gen.chance(r, 0.6):
                # while it is out of the Gfa its intervals are edited (its kind may change)
                n1, n2 = M.split_oriented(rec.pos[1])[0], M.split_oriented(rec.pos[2])[0]
                k1 = k2 = None
                if M.classify_edge(rec)[0] == "L" and seg_len(st, n1) >= 2 and seg_len(st, n2) >= 2 and gen.chance(r, 0.6):
                    # a dovetail becomes the dovetail over the two OTHER ends (what was the 'from' side is the 'to' side now)
                    flip = {"pfx": "sfx", "sfx": "pfx"}
                    k1, k2 = flip[M.substring_type(rec.pos[3], rec.pos[4])], flip[M.substring_type(rec.pos[5], rec.pos[6])]
                b1, e1, _k = gen.interval(r, seg_len(st, n1), k1)
                b2, e2, _k = gen.interval(r, seg_len(st, n2), k2)
                op.append({"beg1": b1, "end1": e1, "beg2": b2, "end2": e2})
            ops.append(op)
            st.model.remove(rec)
            if len(op) > 3:
                rec.pos[3:7] = [op[3]["beg1"], op[3]["end1"], op[3]["beg2"], op[3]["end2"]]
            st.model.add(rec)
            continue
        if o.get("p_item") and version == "gfa2" and gen.fair(r, o["p_item"]):
            op = item_edit(st, r)
            if op is not None:
                ops.append(op)
                continue
        if x < o["p_rm"] and rem:
            i = gen.choice(r, rem)
            if gen.chance(r, 0.4):
                # rather a record that something depends on (the cascade is what is tested)
                dep = [j for j in rem if st.model.dependants(st.model.recs[j])]
                if dep:
                    i = gen.choice(r, dep)
            rec = st.model.recs[i]
            nm = M.name_of(rec)
            how = r.randrange(3)
            if how == 0 and nm is not None and not (version == "gfa1" and rec.rt in ("L", "C")):
                ops.append(["rm", nm])
            elif how == 1:
                ops.append(["rm_i", i])
            else:
                ops.append(["disc", i])
            st.model.remove(rec)
        elif x < o["p_rm"] + o["p_rename"] and rem:
            cands = [i for i in rem if M.name_of(st.model.recs[i]) is not None
                     and not (version == "gfa1" and st.model.recs[i].rt in ("L", "C"))]
            if not cands:
                continue
            i = gen.choice(r, cands)
            late = [j for j in cands if M.name_of(st.model.recs[j]) in st.was_pending]
            if late and gen.chance(r, 0.4):
                i = gen.choice(r, late)  # a line that replaced a placeholder
            circ = set(m_[0] for x_ in st.model.recs if x_.rt in ("L", "C", "E", "G")
                       for m_ in M.mentions(x_) if len(set(mm[0] for mm in M.mentions(x_))) == 1)
            both = [j for j in late if M.name_of(st.model.recs[j]) in circ]
            if both and gen.chance(r, 0.5):
                i = gen.choice(r, both)  # ... and which a circular line mentions twice
            rec = st.model.recs[i]
            pend = sorted(st.model.undefined_mentions())
            if pend and gen.fair(r, 0.12):
                # towards an identifier which lines mention and no line defines yet: gfapy refuses that (no change);
                # a library that accepts it has to make the renamed line the one those mentions resolve to
                ops.append(["rename_pending", i, gen.choice(r, pend)])
                continue
            kind = rec.rt if rec.rt in POOL else "S"
            new = st.free_name(kind, r, allow_undefined=False)
            if rec.rt in ("E", "G", "O", "U") and gen.chance(r, 0.25) and \
                    not any(m_[0] == M.name_of(rec) for x in st.model.recs for m_ in M.mentions(x)):
                new = "*"  # an edge, gap or group which nobody mentions may become unnamed
            if new is None or (version == "gfa1" and "," in new):
                continue
            old = M.name_of(rec)
            st.model.rename(rec, new)
            if old in st.was_pending:
                st.was_pending.add(new)
            if rec.rt == "S":
                st.seq.pop(new, None)  # a stale plan of an earlier segment of that name
                st.slen[new] = seg_len(st, old)
                if old in st.seq:
                    st.seq[new] = st.seq[old]
                # overlap policies follow the name
                for ek in list(st.ov_policy):
                    if old in (ek[0], ek[2]):
                        nk = M.ends_key(new if ek[0] == old else ek[0], ek[1],
                                        new if ek[2] == old else ek[2], ek[3])
                        st.ov_policy[nk] = st.ov_policy.pop(ek)
            ops.append(["rename", i, new])
        elif x < o["p_rm"] + o["p_rename"] + o["p_tag"] and rem:
            cands = [i for i in rem if st.model.recs[i].rt != "#"]
            if not cands:
                continue
            i = gen.choice(r, cands)
            rec = st.model.recs[i]
            have = [t for t in rec.tags if t[0] in gen.TAG_NAMES]
            if have and gen.chance(r, 0.4):
                n, t, _v = gen.choice(r, have)
                if gen.chance(r, 0.5):
                    rec.tags = [x_ for x_ in rec.tags if x_[0] != n]
                    ops.append(["set_tag", i, n, t, None])
                else:
                    v = gen.gen_tag_value(r, t, True)
                    rec.tags = [(a, b, (v if a == n else c)) for a, b, c in rec.tags]
                    ops.append(["set_tag", i, n, t, v])
            else:
                free = [n for n in gen.TAG_NAMES if rec.tag(n) is None]
                if not free:
                    continue
                n = gen.choice(r, free)
                t = gen.choice(r, G.TAG_TYPES)
                v = gen.gen_tag_value(r, t, True)
                rec.tags.append((n, t, v))
                ops.append(["set_tag", i, n, t, v])
        else:
            line = new_record(st, r)
            if line is None:
                continue
            how = gen.chance(r, o["instance"])
            want_clone = gen.fair(r, o.get("p_clone", 0.08)) and line[0] not in ("H", "#")
            cont = line[0] in ("O", "U") and line[1][0] != "*" and st.model.by_name(line[1][0]) is not None
            if want_clone and not cont and not any(t[0] == "q9" for t in line[2]) and gen.chance(r, 0.7):
                # a tag whose datatype is not the default one of its value: it lives in the line's datatype table only
                line[2].append(gen.choice(r, [["q9", "A", "x"], ["q9", "J", "[1,2]"], ["q9", "H", "0AF1"], ["q9", "J", "[0.5]"]]))
            rec1 = model_add(st, line)
            follow = []
            if want_clone:
                # the Line object that is added is a clone() of one built from the text (whose fields were
                # read before); for some record types the original is added as well, as a twin under another
                # name (or, where records need no name, as an identical second record)
                how = "clone"
                unnamed_ok = (line[0] == "C" and not any(t[0] == "ID" for t in line[2])) or line[0] == "F" or \
                    (line[0] in ("E", "G") and line[1][0] == "*")
                named = line[0] in ("P", "O", "U") and line[1][0] != "*"
                if (unnamed_ok or named) and gen.chance(r, 0.7):
                    twin = None
                    if named:
                        twin = st.free_name(line[0], r, allow_undefined=False)
                        if twin is None or (version == "gfa1" and "," in twin):
                            named = False
                    if unnamed_ok or named:
                        how = ["pair", twin, gen.chance(r, 0.5)]
                        rec2 = model_add(st, [line[0], ([twin] + list(line[1][1:])) if twin else list(line[1]), [list(t) for t in line[2]]])
                        if o.get("p_tag") and rec1 is not rec2 and gen.chance(r, 0.6):
                            # tag edits on one of the two copies right away (what the copies share shows here)
                            a, b = (rec1, rec2) if gen.chance(r, 0.5) else (rec2, rec1)
                            ia = [i_ for i_, x_ in enumerate(st.model.recs) if x_ is a]
                            ib = [i_ for i_, x_ in enumerate(st.model.recs) if x_ is b]
                            if ia and ib:
                                if a.tag("q9") is not None and gen.chance(r, 0.5):
                                    t_ = a.tag("q9")[0]
                                    a.tags = [x_ for x_ in a.tags if x_[0] != "q9"]
                                    follow.append(["set_tag", ia[0], "q9", t_, None])
                                elif a.tag("zz") is None and b.tag("zz") is None:
                                    a.tags.append(("zz", "i", "12"))
                                    b.tags.append(("zz", "Z", "hello"))
                                    follow.append(["set_tag", ia[0], "zz", "i", "12"])
                                    follow.append(["set_tag", ib[0], "zz", "Z", "hello"])
            ops.append(["add", line, how])
            ops.extend(follow)
            if isinstance(how, list) and not how[1] and not follow and gen.chance(r, 0.5):
                # identical twins (same content, no identifier): one of the two objects leaves again right away -
                # the one that arrived second as often as the first
                idx = [i_ for i_, x_ in enumerate(st.model.recs) if x_ is rec1 or x_ is rec2]
                if len(idx) == 2 and not st.model.dependants(rec1):
                    i_ = gen.choice(r, idx)
                    ops.append([gen.choice(r, ["rm_i", "disc"]), i_])
                    st.model.remove(st.model.recs[i_])
    if o["close"]:
        close_history(st, r, ops)
    return {"version": version, "ops": ops}


def close_history(st, r, ops):
    """Define or remove what is pending so that every mention is defined."""
    for _ in range(60):
        und = sorted(st.model.undefined_mentions())
        missing = st.model.missing_links()
        if not und and not missing:
            return
        if und:
            n = und[0]
            kind = next((k for k in ["S", "E", "G", "O", "U"] if n in POOL[k]), "S")
            if gen.chance(r, 0.75):
                if kind == "S":
                    line = new_segment(st, r, n, tags=False)
                elif kind == "E":
                    line = new_edge(st, r)
                    line[1][0] = n
                elif kind == "G":
                    line = new_gap(st, r)
                    line[1][0] = n
                else:
                    segs = st.model.segment_names()
                    if not segs:
                        nm = st.free_name("S", r)
                        line = new_segment(st, r, nm, tags=False)
                    elif kind == "O":
                        line = ["O", [n, gen.choice(r, segs) + "+"], []]
                    else:
                        line = ["U", [n, gen.choice(r, segs)], []]
                model_add(st, line)
                ops.append(["add", line, False])
            else:
                # remove one record that mentions it
                for i, rec in enumerate(st.model.recs):
                    if any(m[0] == n for m in M.mentions(rec)):
                        ops.append(["rm_i", i])
                        st.model.remove(rec)
                        break
            continue
        p, step = missing[0]
        f, fo, t, to, ov = step
        if gen.chance(r, 0.8):
            if gen.chance(r, 0.5):
                line = ["L", [f, fo, t, to, ov], []]
            else:
                line = ["L", [t, INV[to], f, INV[fo], M.complement_cigar(ov)], []]
            model_add(st, line)
            ops.append(["add", line, False])
        else:
            i = next(i for i, rec in enumerate(st.model.recs) if rec is p)
            ops.append(["rm_i", i])
            st.model.remove(p)


# ---------------------------------------------------------------- interpreter

class Runner:
    """Applies concrete operations to a real Gfa and the model in lock-step."""

    def __init__(self, version, vlevel=1):
        self.version = version
        self.vlevel = vlevel
        self.model = M.ModelDoc(version)
        self.gfa = gfapy.Gfa(version=version, vlevel=vlevel)
        self.removed = []  # gfapy line objects that were removed (ghost detection)
        self.instances = []  # Line objects handed to add_line
        self.spares = []  # Line objects that were cloned and not added themselves

    def find_line(self, rec):
        """The gfapy line that corresponds to a model record."""
        from . import observe as O
        nm = M.name_of(rec)
        if nm is not None and not (self.version == "gfa1" and rec.rt in ("L", "C")):
            l = self.gfa.line(nm)
            if l is not None and not l.virtual:
                return l
        key = G.canon_rec(rec)
        if key[0] == "L":
            key = (key[0], G.link_key(key), key[2])

        def k_of(r_):
            k_ = G.canon_rec(r_)
            return (k_[0], G.link_key(k_), k_[2]) if k_[0] == "L" else k_
        # records without identifier may occur several times with the same text: the n-th of them in the
        # model stands for the n-th such line of the Gfa (so that not always the first twin is picked)
        rank = 0
        for r_ in self.model.recs:
            if r_ is rec:
                break
            if r_.rt == rec.rt and k_of(r_) == key:
                rank += 1
        cands = []
        for l in self.gfa.lines:
            if l.virtual or l.record_type == "H" or l.record_type != rec.rt:
                continue
            if O.line_key(l, self.version) == key:
                cands.append(l)
        if not cands:
            return None
        return cands[min(rank, len(cands) - 1)]

    def apply(self, op):
        """Apply one operation to gfapy and then to the model. Exceptions propagate."""
        kind = op[0]
        if kind == "load":
            lines = [G.Rec.from_plain(l, self.version).text() for l in op[1]]
            self.gfa = gfapy.Gfa("\n".join(lines), version=self.version, vlevel=self.vlevel)
            self.model = M.ModelDoc(self.version, [G.Rec.from_plain(l, self.version) for l in op[1]])
        elif kind == "add":
            rec = G.Rec.from_plain(op[1], self.version)
            text = rec.text()
            if len(op) > 2 and (op[2] == "clone" or isinstance(op[2], list)):
                inst0 = gfapy.Line(text, version=self.version, vlevel=self.vlevel)
                for fn in list(inst0.positional_fieldnames) + list(inst0.tagnames):
                    inst0.get(fn)
                inst = inst0.clone()
                self.spares.append(inst0)
                if op[2] == "clone":
                    self.instances.append(inst)
                    self.gfa.add_line(inst)
                else:
                    _p, twin, clone_first = op[2]
                    if twin:
                        inst.name = twin
                    pair = [(inst, True), (inst0, False)] if clone_first else [(inst0, False), (inst, True)]
                    for x, _is_clone in pair:
                        self.instances.append(x)
                        self.gfa.add_line(x)
                    # (the model keeps the generator's order: the record as drawn, then its twin)
                    r2 = G.Rec.from_plain(op[1], self.version)
                    if twin:
                        r2.pos[0] = twin
                    self.model.add(rec)
                    rec = r2
            elif len(op) > 2 and op[2]:
                inst = gfapy.Line(text, version=self.version, vlevel=self.vlevel)
                if inst.record_type != "H":
                    self.instances.append(inst)
                self.gfa.add_line(inst)
            else:
                self.gfa.add_line(text)
            self.model.add(rec)
        elif kind == "rm":
            rec = self.model.by_name(op[1])
            self._note_removed(rec)
            self.gfa.rm(op[1])
            self.model.remove(rec)
        elif kind in ("rm_i", "disc"):
            rec = self.model.recs[op[1]]
            line = self.find_line(rec)
            if line is None:
                raise LookupError("model record %r has no line in the Gfa" % rec.text())
            self._note_removed(rec)
            if kind == "rm_i":
                self.gfa.rm(line)
            else:
                line.disconnect()
            self.model.remove(rec)
        elif kind == "readd":
            rec = self.model.recs[op[1]]
            line = self.find_line(rec)
            if line is None:
                raise LookupError("model record %r has no line in the Gfa" % rec.text())
            self._note_removed(rec, but=rec)
            if op[2] == "rm":
                self.gfa.rm(line)
            else:
                line.disconnect()
            self.model.remove(rec)
            if len(op) > 3:
                for fn in ("beg1", "end1", "beg2", "end2"):
                    line.set(fn, op[3][fn])
                rec.pos[3:7] = [op[3]["beg1"], op[3]["end1"], op[3]["beg2"], op[3]["end2"]]
            self.gfa.add_line(line)
            self.model.add(rec)
        elif kind == "item":
            rec = self.model.recs[op[1]]
            line = self.find_line(rec)
            if line is None:
                raise LookupError("model record %r has no line in the Gfa" % rec.text())
            _k, _i, how, arg, as_line = op
            items = rec.pos[1].split(" ")
            if how in ("rm_first_item", "rm_last_item"):
                getattr(line, how)()
                rec.pos[1] = " ".join(items[1:] if how == "rm_first_item" else items[:-1])
            elif how == "rm_item":
                line.rm_item(self.gfa.line(arg) if as_line else arg)
                k = items.index(arg)
                rec.pos[1] = " ".join(items[:k] + items[k + 1:])
            else:
                a = arg
                if as_line:
                    a = gfapy.OrientedLine(self.gfa.line(arg[:-1]), arg[-1]) if rec.rt == "O" else self.gfa.line(arg)
                getattr(line, how)(a)
                rec.pos[1] = " ".join([arg] + items) if how == "prepend_item" else " ".join(items + [arg])
        elif kind == "rename":
            rec = self.model.recs[op[1]]
            line = self.find_line(rec)
            if line is None:
                raise LookupError("model record %r has no line in the Gfa" % rec.text())
            line.name = op[2]
            self.model.rename(rec, op[2])
        elif kind == "rename_pending":
            rec = self.model.recs[op[1]]
            line = self.find_line(rec)
            if line is None:
                raise LookupError("model record %r has no line in the Gfa" % rec.text())
            try:
                line.name = op[2]
            except gfapy.NotUniqueError:
                return
            if self.gfa.line(op[2]) is not line or [str(x) for x in self.gfa.names].count(op[2]) != 1:
                raise LookupError("the rename of %r to the pending identifier %r was accepted, but line(%r) is %r and names holds it %d times" % (
                    rec.text(), op[2], op[2], self.gfa.line(op[2]), [str(x) for x in self.gfa.names].count(op[2])))
            self.model.rename(rec, op[2])
        elif kind == "set_tag":
            rec = self.model.recs[op[1]]
            line = self.find_line(rec)
            if line is None:
                raise LookupError("model record %r has no line in the Gfa" % rec.text())
            _k, _i, n, t, v = op
            if v is None:
                line.delete(n)
                rec.tags = [x for x in rec.tags if x[0] != n]
            else:
                if rec.tag(n) is None:
                    line.set_datatype(n, t)
                    rec.tags.append((n, t, v))
                else:
                    rec.tags = [(a, b, (v if a == n else c)) for a, b, c in rec.tags]
                line.set(n, v)
        else:
            raise ValueError("unknown op %r" % (op,))

    def stale_instances(self):
        """Line objects given to add_line: an object reports to be connected exactly when it is
        one of the lines of the Gfa (an object merged into or replaced by another line is not)."""
        from . import observe as O
        ids = set(id(l) for l in O.all_lines(self.gfa, split_headers=False))
        out = []
        for inst in self.instances:
            try:
                c = inst.is_connected()
            except Exception as e:
                out.append("ownership: is_connected() of %r raised %s" % (str(inst), type(e).__name__))
                continue
            if c != (id(inst) in ids):
                out.append("ownership: the Line object %r given to add_line reports is_connected() == %r but %s one of the lines of the Gfa" % (
                    str(inst), c, "is" if id(inst) in ids else "is not"))
        return out

    def _note_removed(self, rec, but=None):
        for g in self.model.cascade(rec):
            if g is but:
                continue
            l = self.find_line(g)
            if l is not None:
                self.removed.append(l)

    def real_text(self):
        """Text of the real (non-virtual) lines of the Gfa."""
        from . import observe as O
        return "\n".join(O.line_text(l) for l in self.gfa.lines if not l.virtual)
