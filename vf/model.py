"""Text-level reference model of a GFA document (never imports gfapy).

Everything is derived from the *text* of the records with the rules of the GFA1/GFA2
specifications and the gfapy tutorial (references.rst dependency tables).
"""
from collections import Counter

from . import grammar as G

INV = {"+": "-", "-": "+"}


def name_of(rec):
    """Identifier of a record in the shared namespace, or None."""
    rt = rec.rt
    if rec.version == "gfa1":
        if rt in ("S", "P"):
            return rec.pos[0]
        if rt in ("L", "C"):
            t = rec.tag("ID")
            return t[1] if t else None
        return None
    if rt == "S":
        return rec.pos[0]
    if rt in ("E", "G", "O", "U"):
        return rec.pos[0] if rec.pos[0] != "*" else None
    return None


def split_oriented(s):
    return s[:-1], s[-1]


def path_steps(rec):
    """GFA1 path: list of (from, fo, to, to_o, overlap) required links."""
    segs = [split_oriented(x) for x in rec.pos[1].split(",")]
    ovs = rec.pos[2].split(",")
    n = len(segs)
    if n == 1:
        return []
    undef = (ovs == ["*"])
    circular = (len(ovs) == n)
    steps = []
    for i in range(n):
        j = i + 1
        if j == n:
            if not circular:
                break
            j = 0
        ov = "*" if undef else ovs[i]
        steps.append((segs[i][0], segs[i][1], segs[j][0], segs[j][1], ov))
    return steps


def mentions(rec):
    """Identifiers a record refers to: list of (identifier, role, orient)."""
    rt = rec.rt
    out = []
    if rec.version == "gfa1":
        if rt in ("L", "C"):
            out.append((rec.pos[0], "from", rec.pos[1]))
            out.append((rec.pos[2], "to", rec.pos[3]))
        elif rt == "P":
            for x in rec.pos[1].split(","):
                n, o = split_oriented(x)
                out.append((n, "item", o))
        return out
    if rt in ("E", "G"):
        for i in (1, 2):
            n, o = split_oriented(rec.pos[i])
            out.append((n, "sid%d" % i, o))
    elif rt == "F":
        out.append((rec.pos[0], "sid", None))
    elif rt == "O":
        for x in rec.pos[1].split(" "):
            n, o = split_oriented(x)
            out.append((n, "item", o))
    elif rt == "U":
        for x in rec.pos[1].split(" "):
            out.append((x, "item", None))
    return out


def link_form_key(p):
    f, fo, t, to, ov = p[:5]
    b = (t, INV[to], f, INV[fo], complement_cigar(ov))
    return min(tuple(p[:5]), b)


def complement_cigar(c):
    if c == "*":
        return "*"
    return "".join("%d%s" % o for o in G.complement_cigar_ops(G.canon_cigar(c)))


def ends_key(f, fo, t, to):
    return min((f, fo, t, to), (t, INV[to], f, INV[fo]))


# ------------------------------------------------------------ E-line classification

def pos_val(s):
    return (int(s[:-1]), True) if s.endswith("$") else (int(s), False)


def substring_type(beg, end):
    """'pfx' | 'sfx' | 'whole' | 'internal' from two GFA2 position strings."""
    (b, bl), (e, el) = pos_val(beg), pos_val(end)
    if b == 0 and not bl:
        if el:
            return "whole"
        return "pfx"
    if b == 0 and bl:  # segment of length 0 cannot occur (lengths >= 1)
        return "whole"
    if bl:
        return "sfx"
    if el:
        return "sfx"
    return "internal"


def classify_edge(rec):
    """-> (kind, key_for_sid1, key_for_sid2); kind in 'L','C','I'."""
    o1 = rec.pos[1][-1]
    o2 = rec.pos[2][-1]
    st1 = substring_type(rec.pos[3], rec.pos[4])
    st2 = substring_type(rec.pos[5], rec.pos[6])
    if st1 == "whole" and st2 == "whole":
        return "C", "edges_to_contained", "edges_to_containers"
    if st1 == "whole":
        return "C", "edges_to_containers", "edges_to_contained"
    if st2 == "whole":
        return "C", "edges_to_contained", "edges_to_containers"
    if o1 == o2:
        if (st1, st2) == ("pfx", "sfx"):
            return "L", "dovetails_L", "dovetails_R"
        if (st1, st2) == ("sfx", "pfx"):
            return "L", "dovetails_R", "dovetails_L"
    else:
        if (st1, st2) == ("pfx", "pfx"):
            return "L", "dovetails_L", "dovetails_L"
        if (st1, st2) == ("sfx", "sfx"):
            return "L", "dovetails_R", "dovetails_R"
    return "I", "internals", "internals"


def both_whole(rec):
    return substring_type(rec.pos[3], rec.pos[4]) == "whole" and \
        substring_type(rec.pos[5], rec.pos[6]) == "whole"


def gap_keys(rec):
    o1 = rec.pos[1][-1]
    o2 = rec.pos[2][-1]
    return ("gaps_R" if o1 == "+" else "gaps_L", "gaps_L" if o2 == "+" else "gaps_R")


def link_keys(rec):
    fo, to = rec.pos[1], rec.pos[3]
    return ("dovetails_R" if fo == "+" else "dovetails_L", "dovetails_L" if to == "+" else "dovetails_R")


class ModelDoc:
    def __init__(self, version, recs=()):
        self.version = version
        self.recs = list(recs)

    @staticmethod
    def from_doc(doc):
        return ModelDoc(doc["version"], [G.Rec.from_plain(l, doc["version"]) for l in doc["lines"]])

    def copy(self):
        return ModelDoc(self.version, [G.Rec(r.rt, r.pos, r.tags, r.version) for r in self.recs])

    def text(self):
        return "\n".join(r.text() for r in self.recs)

    def lines(self):
        return [r.text() for r in self.recs]

    def add(self, rec):
        """Append a record; a further O/U line with the identifier of an existing group of
        the same kind continues that group (documented: items appended, tags united).
        Returns the record that now represents the line."""
        if rec.rt in ("O", "U") and rec.pos[0] != "*":
            for r in self.recs:
                if r.rt == rec.rt and r.pos[0] == rec.pos[0]:
                    r.pos[1] = r.pos[1] + " " + rec.pos[1]
                    have = set(t[0] for t in r.tags)
                    r.tags = list(r.tags) + [t for t in rec.tags if t[0] not in have]
                    return r
        self.recs.append(rec)
        return rec

    # ---- namespace
    def names(self):
        return [n for n in (name_of(r) for r in self.recs) if n is not None]

    def by_name(self, name):
        for r in self.recs:
            if name_of(r) == name:
                return r
        return None

    def segments(self):
        return [r for r in self.recs if r.rt == "S"]

    def segment_names(self):
        return [r.pos[0] for r in self.recs if r.rt == "S"]

    def undefined_mentions(self):
        names = set(self.names())
        segs = set(self.segment_names())
        out = set()
        for r in self.recs:
            for n, role, _o in mentions(r):
                if role == "item" and r.rt in ("O", "U"):
                    if n not in names:
                        out.add(n)
                elif n not in segs:
                    out.add(n)
        return out

    def missing_links(self):
        """(path, step) pairs whose supporting link is not in the document."""
        have = self.link_index()
        out = []
        for r in self.recs:
            if r.rt == "P":
                for st in path_steps(r):
                    if self.find_link(st, have) is None:
                        out.append((r, st))
        return out

    def is_closed(self):
        return not self.undefined_mentions() and not self.missing_links()

    # ---- links
    def link_index(self):
        idx = {}
        for r in self.recs:
            if r.rt == "L":
                idx.setdefault(ends_key(*r.pos[:4]), []).append(r)
        return idx

    def find_link(self, step, idx=None):
        """The link record supporting a path step (placeholder overlap = wildcard)."""
        idx = idx if idx is not None else self.link_index()
        f, fo, t, to, ov = step
        for l in idx.get(ends_key(f, fo, t, to), []):
            lov = l.pos[4]
            if ov == "*" or lov == "*":
                return l
            if tuple(l.pos[:4]) == (f, fo, t, to) and G.canon_cigar(lov) == G.canon_cigar(ov):
                return l
            if (l.pos[2], INV[l.pos[3]], l.pos[0], INV[l.pos[1]]) == (f, fo, t, to) and \
                    G.canon_cigar(complement_cigar(lov)) == G.canon_cigar(ov):
                return l
        return None

    def has_equivalent_link(self, p):
        """Is there a link equal to or the complement of positional fields p
        (placeholder overlaps are wildcards, as gfapy documents)?"""
        return self.find_link((p[0], p[1], p[2], p[3], p[4])) is not None

    # ---- removal cascade (tutorial: dependent lines)
    def dependants(self, rec):
        """Records removed together with rec (direct dependants only)."""
        out = []
        rt = rec.rt
        nm = name_of(rec)
        if rt == "S":
            for r in self.recs:
                if r is rec:
                    continue
                if r.rt in ("L", "C", "E", "G", "F", "P", "O", "U"):
                    for n, role, _o in mentions(r):
                        if n == rec.pos[0]:
                            out.append(r)
                            break
        elif rt == "L":
            idx = self.link_index()
            for r in self.recs:
                if r.rt == "P":
                    for st in path_steps(r):
                        if self.find_link(st, idx) is rec:
                            out.append(r)
                            break
        elif rt == "E" and nm is not None:
            for r in self.recs:
                if r.rt in ("O", "U") and any(n == nm for n, _r, _o in mentions(r)):
                    out.append(r)
        elif rt == "O" and nm is not None:
            for r in self.recs:
                if r is not rec and r.rt in ("O", "U") and any(n == nm for n, _r, _o in mentions(r)):
                    out.append(r)
        elif rt == "U" and nm is not None:
            for r in self.recs:
                if r is not rec and r.rt == "U" and any(n == nm for n, _r, _o in mentions(r)):
                    out.append(r)
        return out

    def cascade(self, rec):
        """Transitive closure of removal: list of records (rec first)."""
        seen = [rec]
        todo = [rec]
        while todo:
            x = todo.pop()
            for d in self.dependants(x):
                if not any(d is s for s in seen):
                    seen.append(d)
                    todo.append(d)
        return seen

    def remove(self, rec):
        gone = self.cascade(rec)
        self.recs = [r for r in self.recs if not any(r is g for g in gone)]
        # a removed gap is dropped from the sets that listed it
        for g in gone:
            if g.rt == "G" and name_of(g) is not None:
                for r in self.recs:
                    if r.rt == "U":
                        items = [x for x in r.pos[1].split(" ") if x != name_of(g)]
                        r.pos[1] = " ".join(items)
                    elif r.rt == "O":
                        items = [x for x in r.pos[1].split(" ") if x[:-1] != name_of(g)]
                        r.pos[1] = " ".join(items)
        return gone

    # ---- rename
    def rename(self, rec, new):
        old = name_of(rec)
        rt = rec.rt
        if rec.version == "gfa1" and rt in ("L", "C"):
            rec.tags = [(n, t, (new if n == "ID" else v)) for n, t, v in rec.tags]
            return
        rec.pos[0] = new
        for r in self.recs:
            if r is rec:
                continue
            if rec.version == "gfa1":
                if rt != "S":
                    continue
                if r.rt in ("L", "C"):
                    if r.pos[0] == old:
                        r.pos[0] = new
                    if r.pos[2] == old:
                        r.pos[2] = new
                elif r.rt == "P":
                    items = [split_oriented(x) for x in r.pos[1].split(",")]
                    r.pos[1] = ",".join((new if n == old else n) + o for n, o in items)
            else:
                if rt == "S" and r.rt in ("E", "G"):
                    for i in (1, 2):
                        n, o = split_oriented(r.pos[i])
                        if n == old:
                            r.pos[i] = new + o
                if rt == "S" and r.rt == "F" and r.pos[0] == old:
                    r.pos[0] = new
                if r.rt == "O":
                    items = [split_oriented(x) for x in r.pos[1].split(" ")]
                    r.pos[1] = " ".join((new if n == old else n) + o for n, o in items)
                if r.rt == "U":
                    r.pos[1] = " ".join(new if x == old else x for x in r.pos[1].split(" "))

    # ---- expected back-references
    def expected_refs(self):
        """name -> key -> Counter(id(rec)) for every *defined* named record; computed from
        the text with the specification's rules. Only defined targets are reported."""
        exp = {}

        def add(target, key, rec):
            exp.setdefault(target, {}).setdefault(key, Counter())[id(rec)] += 1

        idx = self.link_index()
        for r in self.recs:
            rt = r.rt
            if self.version == "gfa1":
                if rt == "L":
                    kf, kt = link_keys(r)
                    add(("S", r.pos[0]), kf, r)
                    add(("S", r.pos[2]), kt, r)
                elif rt == "C":
                    add(("S", r.pos[0]), "edges_to_contained", r)
                    add(("S", r.pos[2]), "edges_to_containers", r)
                elif rt == "P":
                    for n, _role, _o in mentions(r):
                        add(("S", n), "paths", r)
                    for st in path_steps(r):
                        l = self.find_link(st, idx)
                        if l is not None:
                            add(("L", id(l)), "paths", r)
            else:
                if rt == "E":
                    _k, k1, k2 = classify_edge(r)
                    if both_whole(r):
                        # which side is "the container" is a convention, not specified
                        k1 = k2 = "containment(both whole)"
                    add(("S", r.pos[1][:-1]), k1, r)
                    add(("S", r.pos[2][:-1]), k2, r)
                elif rt == "G":
                    k1, k2 = gap_keys(r)
                    add(("S", r.pos[1][:-1]), k1, r)
                    add(("S", r.pos[2][:-1]), k2, r)
                elif rt == "F":
                    add(("S", r.pos[0]), "fragments", r)
                elif rt == "O":
                    for n, _role, _o in mentions(r):
                        add(("N", n), "paths", r)
                elif rt == "U":
                    for n, _role, _o in mentions(r):
                        add(("N", n), "sets", r)
        return exp

    # ---- graph facts
    def dovetails(self):
        """List of (rec, (seg, end), (seg, end)) for every dovetail overlap."""
        out = []
        for r in self.recs:
            if self.version == "gfa1" and r.rt == "L":
                kf, kt = link_keys(r)
                out.append((r, (r.pos[0], kf[-1]), (r.pos[2], kt[-1])))
            elif self.version == "gfa2" and r.rt == "E":
                k, k1, k2 = classify_edge(r)
                if k == "L":
                    out.append((r, (r.pos[1][:-1], k1[-1]), (r.pos[2][:-1], k2[-1])))
        return out

    def components(self):
        """Partition of segment names by 'joined by a chain of dovetails'."""
        parent = {s: s for s in self.segment_names()}

        def find(x):
            while parent[x] != x:
                parent[x] = parent[parent[x]]
                x = parent[x]
            return x

        for _r, (a, _ea), (b, _eb) in self.dovetails():
            if a in parent and b in parent:
                ra, rb = find(a), find(b)
                if ra != rb:
                    parent[ra] = rb
        comps = {}
        for s in parent:
            comps.setdefault(find(s), set()).add(s)
        return set(frozenset(c) for c in comps.values())

    def counts(self):
        nd = nc = ni = 0
        for r in self.recs:
            if self.version == "gfa1":
                nd += r.rt == "L"
                nc += r.rt == "C"
            elif r.rt == "E":
                k = classify_edge(r)[0]
                nd += k == "L"
                nc += k == "C"
                ni += k == "I"
        inc = Counter()
        for _r, a, b in self.dovetails():
            inc[a] += 1
            inc[b] += 1
        dead = sum(1 for s in self.segment_names() for e in "LR" if inc[(s, e)] == 0)
        return {"dovetails": nd, "containments": nc, "internals": ni, "dead_ends": dead}
