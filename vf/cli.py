"""Running the command-line scripts of the tree under test (bin/gfapy-*) as subprocesses."""
import os
import shutil
import subprocess
import sys
import tempfile

from .env import ROOT


def available(name):
    return os.path.exists(os.path.join(ROOT, "bin", name))


def run_script(name, args, files, timeout=120):
    """files: {filename: text}; args may name them. Returns (returncode, stdout, stderr)."""
    d = tempfile.mkdtemp(prefix="vfcli")
    try:
        for fn, text in files.items():
            with open(os.path.join(d, fn), "w", newline="", encoding="utf-8", errors="surrogateescape") as f:
                f.write(text)
        env = dict(os.environ, PYTHONPATH=ROOT, PYTHONDONTWRITEBYTECODE="1", PYTHONHASHSEED="0", PYTHONIOENCODING="utf-8")
        r = subprocess.run([sys.executable, os.path.join(ROOT, "bin", name)] + list(args), cwd=d, env=env,
                           capture_output=True, text=True, timeout=timeout, encoding="utf-8", errors="replace")
        return r.returncode, r.stdout, r.stderr
    finally:
        shutil.rmtree(d, ignore_errors=True)
