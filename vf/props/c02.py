"""C02 Reference graph stays closed and symmetric under every mutation history."""
from hypothesis import strategies as st

from .. import gen, history as H, model as M, observe as O
from ..env import gfapy, GfapyError
from ..runner import Part, Violation

ID = "C02"
ATHERIS = ['gfa1', 'gfa2']  # parts also driven by libFuzzer in the thorough tier (vf/runner.py: all_parts)
RULE = ("model-based histories (<= 25 steps after an optional initial document) of add_line (string or "
        "Line instance; forward references, self-links, hairpins, parallel edges, nested groups, groups "
        "defined in several lines), rm by name / by instance, disconnect, remove-and-add-again of the same "
        "Line object, and rename, each step legal in the text-level model; after EVERY "
        "step the closure/symmetry/ownership/registry invariants are evaluated on the real Gfa and the "
        "back-reference collections of defined lines are compared with the model; non-trivial = the "
        "history removes a line with >= 2 dependants, or defines an identifier that was a placeholder, "
        "or renames a referenced line; distinct by hash of the history")
ASSUMPTIONS = [
    "histories only target real (non-virtual) lines; placeholders arise only from forward references",
    "identifier pools are type-segregated: an undefined identifier is mentioned only where a record of its pool's type may stand",
    "placeholder and specified overlaps are never mixed on one oriented end pair (also across paths)",
    "group nesting is a DAG; the item-editing methods of groups (outside the statement's list of mutations) are exercised in part gfa2-groups only, since they were repaired (D87)",
    "renames go to unused identifiers (collisions are C09)",
]


def prop(case):
    version = case["version"]
    run = H.Runner(version, vlevel=case.get("vlevel", 1))
    labels = {"nt": False, "version": version}
    for step, op in enumerate(case["ops"]):
        kind = op[0]
        # non-triviality bookkeeping (from the model, before the step)
        if kind in ("rm", "rm_i", "disc"):
            rec = run.model.by_name(op[1]) if kind == "rm" else run.model.recs[op[1]]
            if len(run.model.dependants(rec)) >= 2:
                labels["nt"] = True
                labels["rm_fanout"] = True
        elif kind == "add":
            nm = M.name_of(H.G.Rec.from_plain(op[1], version))
            if nm is not None and nm in run.model.undefined_mentions():
                labels["nt"] = True
                labels["define_placeholder"] = True
        elif kind == "rename":
            rec = run.model.recs[op[1]]
            old = M.name_of(rec)
            if any(m[0] == old for r_ in run.model.recs for m in M.mentions(r_)):
                labels["nt"] = True
                labels["rename_referenced"] = True
        try:
            run.apply(op)
        except GfapyError as e:
            raise Violation("step-rejected", "legal step %d %r raised %s: %s\nmodel before step:\n%s" % (
                step, op, type(e).__name__, str(e)[:400], run.model.text()), "%s/%s" % (kind, type(e).__name__))
        except LookupError as e:
            raise Violation("line-lost", "step %d %r: %s\nmodel:\n%s\ngfa:\n%s" % (step, op, e, run.model.text(), run.gfa))
        except Exception as e:
            raise Violation("step-foreign", "legal step %d %r raised %s: %s\nmodel before step:\n%s" % (
                step, op, type(e).__name__, str(e)[:400], run.model.text()), "%s/%s" % (kind, type(e).__name__))
        probs = O.invariants(run.gfa, removed=run.removed) + run.stale_instances()
        if probs:
            raise Violation("invariant", "after step %d %r:\n%s\nmodel:\n%s" % (step, op, "\n".join(probs[:8]), run.model.text()),
                            probs[0].split(":")[0])
        probs = O.check_refs_against_model(run.gfa, run.model)
        if probs:
            raise Violation("model-refs", "after step %d %r:\n%s\nmodel:\n%s" % (step, op, "\n".join(probs[:6]), run.model.text()))
    labels["n_ops"] = min(len(case["ops"]) // 5 * 5, 25)
    return labels


def st_case(version, group_bias=0.0, p_item=0.0):
    @st.composite
    def s(draw):
        r = draw(st.randoms(use_true_random=False))
        h = H.gen_history(r, version, {"p_rm": 0.25, "p_rename": 0.1, "group_bias": group_bias, "p_readd": 0.07, "circular_first": 0.15, "p_item": p_item})
        h["vlevel"] = gen.choice(r, [0, 1, 1, 2, 3])
        return h
    return s()


def parts(tier):
    n = 150 if tier == "quick" else 700
    return [Part("gfa1", prop, strategy=st_case("gfa1"), n=n, quick_shards=2),
            Part("gfa2", prop, strategy=st_case("gfa2"), n=n, quick_shards=2),
            Part("gfa2-groups", prop, strategy=st_case("gfa2", 0.5, 0.12), n=n, quick_shards=2,
                 note="half of the added records are O/U lines, 30% of them further lines of an existing group; 12% of the "
                      "steps edit the item list of a group through add_item / rm_item / append_item / prepend_item / rm_first_item / rm_last_item")]
