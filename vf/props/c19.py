"""C19 A clone is an equal, detached and fully independent line."""
from hypothesis import strategies as st

from .. import gen, grammar as G, observe as O
from ..env import gfapy, GfapyError
from ..runner import Part, Violation

ID = "C19"
ATHERIS = ['clone']  # parts also driven by libFuzzer in the thorough tier (vf/runner.py: all_parts)
RULE = ("every line of a generated GFA1/GFA2 document, stand-alone (gfapy.Line) and connected inside a Gfa "
        "(including the merged header), vlevel 0-3, is cloned; oracle: clone not connected, same written form, "
        "== original (also for the placeholder lines of the document added without its S lines: the clone is a placeholder "
        "with the same written form); in half of the cases two JSON tags are first created through the API with Python values and a "
        "clone is taken before anything reads or writes the line; identity scan: no mutable object (list, CIGAR, operation, OrientedLine, dict, FieldArray, "
        "NumericArray) reachable from both; EVERY mutable value reachable from the clone is edited in place and "
        "fields/tags are reassigned/deleted, after which the original line, its Gfa and the lines it references "
        "must write the same text; then the same with the roles exchanged. non-trivial = the line has >= 1 "
        "list-, alignment-, oriented- or JSON-valued field and an in-place edit touched it; distinct by hash")
ASSUMPTIONS = ["documents are valid (C01)", "editing the original in place is only done on values, never through the Gfa API of connected reference fields"]


def walk(v, seen=None):
    """All mutable objects reachable from a field value (not entering gfapy.Line)."""
    if seen is None:
        seen = {}
    if isinstance(v, gfapy.Line) or id(v) in seen:
        return seen
    if isinstance(v, (list, dict, gfapy.OrientedLine, gfapy.FieldArray, gfapy.CIGAR.Operation)):
        seen[id(v)] = v
    elif not isinstance(v, (int, float, str, bool, bytes, type(None), tuple)) and not gfapy.is_placeholder(v):
        # any other object with state of its own (e.g. gfapy.LastPos, whose value can be assigned)
        seen[id(v)] = v
    if isinstance(v, gfapy.FieldArray):
        seen[id(v._data)] = v._data
        for x in v._data:
            walk(x, seen)
    elif isinstance(v, list):
        for x in list(v):
            walk(x, seen)
    elif isinstance(v, dict):
        for x in v.values():
            walk(x, seen)
    elif isinstance(v, gfapy.OrientedLine):
        walk(v.line, seen)
    return seen


def fields_of(line):
    return list(line.positional_fieldnames) + list(line.tagnames)


def all_mutables(line):
    seen = {}
    for fn in fields_of(line):
        walk(line._data.get(fn), seen)
        walk(line.get(fn), seen)
    return seen


def contains_line(line):
    out = []
    for fn in fields_of(line):
        stack = [line.get(fn)]
        while stack:
            v = stack.pop()
            if isinstance(v, gfapy.Line):
                out.append(fn)
            elif isinstance(v, gfapy.FieldArray):
                stack.extend(v._data)
            elif isinstance(v, list):
                stack.extend(v)
            elif isinstance(v, dict):
                stack.extend(v.values())
            elif isinstance(v, gfapy.OrientedLine):
                stack.append(v.line)
    return out


def scramble(line):
    """Edit in place every mutable value reachable from the line. Returns #edits."""
    n = 0
    for obj in list(all_mutables(line).values()):
        try:
            if isinstance(obj, gfapy.CIGAR.Operation):
                obj.length = obj.length + 7
                obj.code = "D" if obj.code != "D" else "I"
            elif isinstance(obj, gfapy.OrientedLine):
                obj.orient = "-" if obj.orient == "+" else "+"
                if not isinstance(obj.line, gfapy.Line):
                    obj.line = "zz" + str(obj.line)
            elif isinstance(obj, gfapy.FieldArray):
                obj._data.append(obj._data[0] if obj._data else 1)
            elif isinstance(obj, gfapy.LastPos):
                obj.value = obj.value + 1
            elif isinstance(obj, dict):
                obj["__edited__"] = [1]
            elif isinstance(obj, list):
                if obj and isinstance(obj[0], (int, float)) and not isinstance(obj[0], bool):
                    obj[0] = obj[0] + 1
                    obj.append(obj[0])
                elif obj and isinstance(obj[0], str):
                    obj[0] = obj[0] + "x"
                    obj.append("y")
                elif obj:
                    obj.append(obj[0])
                    obj.reverse()
                else:
                    obj.append(3)
            n += 1
        except Exception:
            pass
    return n


def reassign(line):
    for fn in list(line.tagnames):
        try:
            if fn in ("xx", "ab"):
                line.delete(fn)
            else:
                dt = line.get_datatype(fn)
                line.set(fn, {"i": 424242, "f": 2.5, "Z": "edited", "A": "e", "J": {"e": 1},
                              "H": gfapy.ByteArray("0A"), "B": gfapy.NumericArray([1, 2])}[dt])
        except Exception:
            pass
    try:
        line.set("zq", "new")
    except Exception:
        pass


def snapshot(line, gfa):
    snap = {"line": str(line)}
    if gfa is not None:
        snap["gfa"] = str(gfa)
        snap["refs"] = [str(t) for t in O.forward_refs(line) if isinstance(t, gfapy.Line)]
    return snap


def check_line(line, gfa, what, labels, pre=False):
    if pre and line.record_type != "#":
        # tags created through the API with Python values (never parsed from text), and a clone
        # taken before anything reads or writes the line
        try:
            line.set("zj", {"a": [1, {"b": 2}], "c": "x"})
            line.set("zk", [1, "a", [2]])
            made = True
        except Exception:
            made = False
        if made:
            try:
                c0 = line.clone()
            except Exception as e:
                raise Violation("clone-raised", "clone of %s with API-made JSON tags raised %s: %s" % (what, type(e).__name__, str(e)[:300]), type(e).__name__)
            shared = set(all_mutables(c0)) & set(all_mutables(line))
            if shared:
                objs = all_mutables(c0)
                raise Violation("shared-object", "clone of %s (tags zj/zk set through the API, cloned before any read or write) shares mutable object(s) with the original: %s" % (
                    what, [type(objs[i]).__name__ for i in shared][:4]), "api-made/" + type(objs[next(iter(shared))]).__name__)
            labels["api_made_tags"] = True
    # warm-up read: at vlevel 0 the first access decodes lazily parsed fields and may
    # re-spell them (documented); snapshots are taken after that
    for fn in fields_of(line):
        try:
            line.get(fn)
        except Exception as e:
            raise Violation("get-raised", "reading %s of %r raised %s" % (fn, what, type(e).__name__), type(e).__name__)
    before = snapshot(line, gfa)
    try:
        c = line.clone()
    except Exception as e:
        raise Violation("clone-raised", "clone of %s %r raised %s: %s" % (what, before["line"], type(e).__name__, str(e)[:300]), type(e).__name__)
    if c.is_connected() or c.gfa is not None:
        raise Violation("clone-connected", "clone of %r belongs to a Gfa" % before["line"])
    try:
        ctext = str(c)
    except Exception as e:
        raise Violation("clone-unwritable", "str(clone) of %r raised %s" % (before["line"], type(e).__name__), type(e).__name__)
    if ctext != before["line"]:
        raise Violation("clone-text", "clone of %s writes %r, original %r" % (what, ctext, before["line"]))
    try:
        equal = (c == line) and (line == c)
    except Exception as e:
        raise Violation("eq-raised", "comparing the clone of %s %r with the original raised %s: %s" % (what, before["line"], type(e).__name__, str(e)[:200]), type(e).__name__)
    if not equal:
        raise Violation("clone-unequal", "clone of %r does not compare equal" % before["line"])
    leaked = contains_line(c)
    if leaked:
        raise Violation("clone-holds-line", "clone of %r holds a Line object in field(s) %s" % (before["line"], leaked))
    if c._datatype is line._datatype:
        raise Violation("shared-object", "clone of %s %r shares the table of tag datatypes with the original" % (what, before["line"]), "datatype-table")
    shared = set(all_mutables(c)) & set(all_mutables(line))
    if shared:
        objs = all_mutables(c)
        raise Violation("shared-object", "clone of %s %r shares mutable object(s) with the original: %s" % (
            what, before["line"], [type(objs[i]).__name__ for i in shared][:4]), type(objs[next(iter(shared))]).__name__)
    n = scramble(c)
    reassign(c)
    try:
        c.set_datatype("zr", "i")
        c.set("zr", 7)
    except Exception:
        pass
    try:
        c.name = "renamed_clone"
    except Exception:
        pass
    try:
        after = snapshot(line, gfa)
    except Exception as e:
        raise Violation("original-affected", "after editing the clone of %s the original side cannot be written any more: %s: %s (before: %r)" % (
            what, type(e).__name__, str(e)[:200], before), type(e).__name__)
    if after != before:
        raise Violation("original-affected", "editing the clone of %s changed the original side:\nbefore %r\nafter  %r" % (what, before, after))
    if gfa is not None and line.record_type not in ("H", "#", "S") and line.is_connected():
        # a copy is taken of the line as it is NOW: once a line it refers to has another identifier, a further
        # clone writes that identifier, exactly as the original does
        for s_ in list(gfa.segments):
            if s_.virtual or not any(x is line for x in s_.all_references):
                continue
            old_name = s_.name
            try:
                s_.name = "rn9" + str(old_name).replace(",", "")
            except GfapyError:
                continue
            try:
                c3 = line.clone()
                now = str(line)
                if str(c3) != now or not (c3 == line):
                    raise Violation("clone-stale", "after segment %s was renamed, a new clone of %s writes %r, the original %r" % (old_name, what, str(c3), now), line.record_type)
                labels["clone_after_rename"] = True
            finally:
                s_.name = old_name
            break
        if str(line) != before["line"]:
            raise Violation("original-affected", "renaming a segment there and back changed the written form of %s" % what, "rename")
        before = snapshot(line, gfa)  # (the rename may have moved the segment within the written Gfa)
    # roles exchanged
    c2 = line.clone()
    b2 = str(c2)
    n2 = scramble(line)
    if gfa is None:
        reassign(line)
    if str(c2) != b2:
        raise Violation("clone-affected", "editing the original %s changed its clone: %r -> %r" % (what, b2, str(c2)))
    if n:
        labels["nt"] = True
    return n


def prop(case):
    doc = case["doc"]
    version = doc["version"]
    lines = gen.doc_lines(doc)
    vlevel = case["vlevel"]
    labels = {"nt": False, "version": version, "vlevel": vlevel}
    idx = case["index"] % len(lines)
    # stand-alone
    try:
        l = gfapy.Line(lines[idx], version=version, vlevel=vlevel)
    except Exception as e:
        raise Violation("load", "valid line rejected: %r %s" % (lines[idx], e), type(e).__name__)
    check_line(l, None, "stand-alone line", labels, pre=case.get("pre", False))
    # connected: every line of the Gfa, a fresh Gfa per line because the second half edits in place
    n_lines = None
    k = 0
    while True:
        try:
            g = gfapy.Gfa(list(lines), version=version, vlevel=vlevel)
        except Exception as e:
            raise Violation("load", "valid document rejected: %s: %s\n%s" % (type(e).__name__, str(e)[:300], "\n".join(lines)), type(e).__name__)
        targets = [x for x in g.lines if x.record_type != "H"] + [g.header]
        if k >= len(targets) or k >= case.get("max_lines", 6):
            break
        t = targets[(idx + k) % len(targets)]
        check_line(t, g, "connected %s line" % ("header" if t is g.header else t.record_type), labels, pre=case.get("pre", False))
        labels["rt_" + ("custom" if t.record_type not in "HSLCPEFGOU#" else t.record_type)] = True
        k += 1
    # placeholders: the same document without its S lines, added line by line, leaves virtual
    # segments (and virtual links of paths); their clones are placeholders too
    try:
        g = gfapy.Gfa(version=version, vlevel=vlevel)
        for l_ in lines:
            if not l_.startswith(("S\t", "H\t")):
                g.add_line(l_)
        virt = [x for x in g.lines if x.virtual]
    except Exception:
        virt = []
    for v in virt[:6]:
        try:
            c = v.clone()
            ok = (c.virtual == v.virtual) and str(c) == str(v) and not c.is_connected()
        except Exception as e:
            raise Violation("clone-raised", "clone of the placeholder %r raised %s: %s" % (O.line_text(v), type(e).__name__, str(e)[:200]), type(e).__name__)
        if not ok:
            raise Violation("clone-placeholder", "clone of the placeholder %r: virtual=%r, written %r, connected=%r" % (
                str(v), c.virtual, str(c), c.is_connected()), v.record_type if v.record_type != "\n" else "unknown")
        labels["placeholders"] = True
    return labels


@st.composite
def st_case(draw):
    r = draw(st.randoms(use_true_random=False))
    v = gen.choice(r, ["gfa1", "gfa2"])
    o = {"nseg": (1, 3), "comments": False}
    doc = gen.build_gfa1(r, o) if v == "gfa1" else gen.build_gfa2(r, o)
    return {"doc": {"version": v, "lines": doc["lines"]}, "vlevel": r.randrange(4), "index": r.randrange(50),
            "max_lines": 5, "pre": gen.chance(r, 0.5)}


def parts(tier):
    return [Part("clone", prop, strategy=st_case(), n=250 if tier == "quick" else 1200, quick_shards=2)]
