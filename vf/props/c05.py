"""C05 Mutating a Gfa is equivalent to editing its text (exact removal cascade)."""
from hypothesis import strategies as st

from .. import gen, grammar as G, history as H, model as M, observe as O
from ..env import gfapy, GfapyError
from ..runner import Part, Violation

ID = "C05"
ATHERIS = ['gfa1', 'gfa2']  # parts also driven by libFuzzer in the thorough tier (vf/runner.py: all_parts)
RULE = ("model-based histories of add / rm by name / rm by instance / disconnect / rename / set+delete tag "
        "(and, beyond the statement's list, remove-and-add-again of the same object and the item-editing methods of GFA2 groups) "
        "(each step legal in the text model, forward references allowed, a closing phase defines or removes "
        "whatever is pending); after EVERY step the multiset of canonical real lines of the Gfa must equal the "
        "model's records (exact cascade, renamed mentions, dropped gap mentions); whenever the model is closed "
        "the full observation (records, namespace, per-line references and back-reference multisets, path-link "
        "directions) must equal that of a Gfa parsed afresh from the model's text; non-trivial = a removal with "
        "cascade size >= 3 or direct fan-out >= 2, or a rename of a line mentioned >= 2 times; distinct by hash")
ASSUMPTIONS = [
    "every individual step is legal in the text-level model; histories only target real lines",
    "type-segregated identifier pools; group nesting is a DAG; a set never consists of gaps only (its state after the gaps are removed is unspecified)",
    "placeholder and specified overlaps never mixed on one oriented end pair",
    "tag edits use custom tag names only (not LN/ID/VN/TS whose change has cross-field meaning)",
]


def _content_check(run, step, op):
    try:
        got = G.canon_doc(run.real_text(), run.version)
    except Exception as e:
        raise Violation("unparsable", "after step %d %r the Gfa writes text the grammar cannot split: %s\n%s" % (step, op, e, run.real_text()))
    want = G.canon_doc(run.model.text(), run.version)
    if got != want:
        raise Violation("content", "after step %d %r content differs from the edited text: %s\n-- model --\n%s\n-- gfa --\n%s" % (
            step, op, G.counter_diff(want, got), run.model.text(), run.real_text()), op[0])


def prop(case):
    version = case["version"]
    vlevel = case.get("vlevel", 1)
    run = H.Runner(version, vlevel=vlevel)
    labels = {"nt": False, "version": version}
    closed_checks = 0
    for step, op in enumerate(case["ops"]):
        kind = op[0]
        if kind in ("rm", "rm_i", "disc"):
            rec = run.model.by_name(op[1]) if kind == "rm" else run.model.recs[op[1]]
            if len(run.model.cascade(rec)) >= 3 or len(run.model.dependants(rec)) >= 2:
                labels["nt"] = True
                labels["cascade"] = True
        elif kind == "rename":
            old = M.name_of(run.model.recs[op[1]])
            if sum(1 for r_ in run.model.recs for m in M.mentions(r_) if m[0] == old) >= 2:
                labels["nt"] = True
                labels["rename_mentions"] = True
        try:
            run.apply(op)
        except GfapyError as e:
            raise Violation("step-rejected", "legal step %d %r raised %s: %s\nmodel before step:\n%s" % (
                step, op, type(e).__name__, str(e)[:400], run.model.text()), "%s/%s" % (kind, type(e).__name__))
        except LookupError as e:
            raise Violation("line-lost", "step %d %r: %s\nmodel:\n%s\ngfa:\n%s" % (step, op, e, run.model.text(), run.gfa))
        except Exception as e:
            raise Violation("step-foreign", "legal step %d %r raised %s: %s\nmodel before step:\n%s" % (
                step, op, type(e).__name__, str(e)[:400], run.model.text()), "%s/%s" % (kind, type(e).__name__))
        _content_check(run, step, op)
        if run.model.is_closed() and (step == len(case["ops"]) - 1 or step % 3 == 0):
            closed_checks += 1
            text = run.model.text()
            try:
                fresh = gfapy.Gfa(text, version=version, vlevel=vlevel)
            except Exception as e:
                raise Violation("model-text-rejected", "text the history denotes is rejected by a fresh parse: %s: %s\n%s" % (
                    type(e).__name__, str(e)[:300], text), type(e).__name__)
            a, b = O.observe(run.gfa), O.observe(fresh)
            if a != b:
                raise Violation("observe", "after step %d %r the mutated Gfa differs from a fresh parse of the edited text:\n%s\n-- text --\n%s" % (
                    step, op, O.obs_diff(a, b), text), op[0])
            try:
                run.gfa.validate()
            except Exception as e:
                raise Violation("validate", "closed Gfa fails validate() after step %d %r: %s: %s\n%s" % (step, op, type(e).__name__, str(e)[:300], text))
    labels["closed_checks"] = min(closed_checks, 5)
    return labels


def st_case(version):
    @st.composite
    def s(draw):
        r = draw(st.randoms(use_true_random=False))
        h = H.gen_history(r, version, {"p_rm": 0.22, "p_rename": 0.1, "p_tag": 0.12, "close": True, "load": 0.7, "p_item": 0.06})
        h["vlevel"] = gen.choice(r, [1, 1, 1, 2, 3, 0])
        return h
    return s()


def st_wide(version):
    """A hub segment with 66-90 dovetails on one end (and a set listing a gap and as many segments): reference
    lists far longer than any other history makes; then the first-added, the last-added or a random one of the
    dependants is removed, by instance or by name, or a neighbour with its link."""
    @st.composite
    def s(draw):
        r = draw(st.randoms(use_true_random=False))
        n = r.randint(66, 90)
        st_ = H.GenState(version)
        lines = []
        ho = gen.choice(r, "+-")
        if version == "gfa1":
            lines.append(["S", ["h", "*"], [["LN", "i", "10"]]])
            lines += [["S", ["s%d" % i, "*"], [["LN", "i", "10"]]] for i in range(n)]
            lines += [["L", ["h", ho, "s%d" % i, gen.choice(r, "+-"), "*"], []] for i in range(n)]
            if gen.chance(r, 0.5):
                lines += [["C", ["h", "+", "s%d" % i, "+", "0", "*"], []] for i in range(n)]
        else:
            lines.append(["S", ["h", "10", "*"], []])
            lines += [["S", ["s%d" % i, "10", "*"], []] for i in range(n)]
            for i in range(n):
                so = gen.choice(r, "+-")
                hb, he = ("5", "10$") if ho == "+" else ("0", "5")
                sb, se = ("0", "5") if so == "+" else ("5", "10$")
                lines.append(["E", ["e%d" % i if gen.chance(r, 0.8) else "*", "h" + ho, "s%d" % i + so, hb, he, sb, se, "*"], []])
            lines.append(["G", ["g1", "h+", "s0-", "5", "*"], []])
            lines.append(["U", ["u1", " ".join(["g1"] + ["s%d" % i for i in range(n)])], []])
            if gen.chance(r, 0.5):
                lines.append(["O", ["o1", " ".join(["h" + ho] + ["e0+"] if lines[n + 1][1][0] == "e0" and lines[n + 1][1][2].endswith("+") else ["h" + ho])], []])
        for l in lines:
            H.model_add(st_, l)
        ops = [["load", lines]]
        first_dep = n + 1
        for _ in range(r.randint(1, 4)):
            deps = [i for i, x in enumerate(st_.model.recs) if x.rt in "LCEG"]
            if not deps:
                break
            w = r.randrange(5)
            if w == 0 and version == "gfa2" and st_.model.by_name("g1") is not None:
                rec = st_.model.by_name("g1")
                ops.append(["rm", "g1"])
            elif w == 1:
                segs_ = [x for x in st_.model.recs if x.rt == "S" and x.pos[0] != "h"]
                rec = gen.choice(r, segs_[:3] + segs_[-2:])
                ops.append(["rm", rec.pos[0]])
            else:
                i = deps[0] if w == 2 else (deps[-1] if w == 3 else gen.choice(r, deps))
                rec = st_.model.recs[i]
                ops.append([gen.choice(r, ["rm_i", "disc"]), i])
            st_.model.remove(rec)
        return {"version": version, "vlevel": gen.choice(r, [0, 1, 1, 2, 3]), "ops": ops, "wide": n}
    return s()


def prop_wide(case):
    out = prop(case)
    out["nt"] = True
    out["fanout"] = "66-78" if case["wide"] <= 78 else "79-90"
    return out


def parts(tier):
    n = 300 if tier == "quick" else 1000
    return [Part("gfa1", prop, strategy=st_case("gfa1"), n=n, quick_shards=4),
            Part("gfa2", prop, strategy=st_case("gfa2"), n=n, quick_shards=4),
            Part("wide-gfa1", prop_wide, strategy=st_wide("gfa1"), n=12 if tier == "quick" else 150,
                 note="reference lists of 66-90 entries (a hub segment, a long set); removal of the first-added / last-added / a random dependant"),
            Part("wide-gfa2", prop_wide, strategy=st_wide("gfa2"), n=16 if tier == "quick" else 150)]
