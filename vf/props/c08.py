"""C08 A failed mutation leaves the Gfa unchanged."""
from hypothesis import strategies as st

from .. import gen, grammar as G, history as H, model as M, observe as O
from ..env import gfapy, GfapyError
from ..runner import Part, Violation

ID = "C08"
ATHERIS = ['gfa1', 'gfa2']  # parts also driven by libFuzzer in the thorough tier (vf/runner.py: all_parts)
RULE = ("model-based histories (as C05) in which about half of the steps are calls BUILT TO FAIL against the "
        "current model state: add a line whose identifier is in use by a line of the same or of another type "
        "(mentioning fresh undefined identifiers), the same link again, a line of the other GFA version (string "
        "and instance), a record with one malformed field / malformed tag / duplicate tag / predefined tag of "
        "the wrong type, a header line with k good tags followed by a conflicting VN/TS or a datatype clash, a "
        "second U/O line with a contradictory tag, assignment to a reference or backreference-related field of a "
        "connected line, rm/try_get of an unknown name, an invalid tag value at vlevel 3, an already connected "
        "instance; part 'unknown-version': the same on a Gfa whose version is still unknown (queued lines, "
        "unsupported VN). Oracle: if the call raised, the full observation (written records, version, namespace, "
        "per-line references and back-references, placeholders, queue length, header) equals the one taken "
        "before the call. non-trivial = the call raised and the rejected line mentioned >= 1 identifier or "
        "carried >= 2 tags; distinct by hash")
ASSUMPTIONS = [
    "a call that does not raise is not a violation here (failing is not demanded); the history stops there",
    "rename collisions are C09's subject",
    "failing calls only target real lines; legal steps as in C02/C05",
]


def full_obs(gfa):
    ob = O.observe(gfa)
    ob["queue"] = len(gfa._line_queue)
    try:
        ob["header"] = str(gfa.header)
    except Exception as e:
        ob["header"] = "raised %s" % type(e).__name__
    ob["n_input_header_lines"] = None  # counting refused lines is not observable damage
    return ob


NEW_TAG_VALUES = {"nan": lambda: float("nan"), "inf": lambda: float("inf"), "empty": lambda: "", "tab": lambda: "a\tb",
                  "emptylist": lambda: []}


def do_fail(run, op):
    """Execute a call built to fail. Returns the exception or None."""
    kind = op[1]
    g = run.gfa
    try:
        if kind == "add":
            g.add_line(op[2])
        elif kind == "add_instance":
            inst = gfapy.Line(op[2], version=op[3], vlevel=(0 if op[-1].endswith("_v0") else run.vlevel))
            run.last_instance = inst
            g.add_line(inst)
        elif kind == "add_connected":
            other = gfapy.Gfa(version=run.version)
            other.add_line(op[2])
            l = [x for x in other.lines if not x.virtual and x.record_type != "H"][0]
            g.add_line(l)
        elif kind == "set":
            rec = run.model.recs[op[2]]
            line = run.find_line(rec)
            if op[5] == "attr":
                setattr(line, op[3], op[4])
            else:
                line.set(op[3], op[4])
        elif kind == "set_new":
            rec = run.model.recs[op[2]]
            line = run.find_line(rec)
            run.last_line = line
            line.set(op[3], NEW_TAG_VALUES[op[4]]())
        elif kind == "rename":
            rec = run.model.recs[op[2]]
            line = run.find_line(rec)
            line.name = op[3]
        elif kind == "rm":
            g.rm(op[2])
        elif kind == "try_get":
            g.try_get_line(op[2])
            g.try_get_segment(op[2])
        elif kind == "header":
            g.add_line(op[2])
        elif kind == "header_add":
            g.header.add(*op[2])
        elif kind == "multiply":
            g.multiply(op[2], op[3], distribute=op[4])
        else:
            raise ValueError(kind)
    except Exception as e:
        return e
    return None


def prop(case):
    version = case["version"]
    vlevel = case.get("vlevel", 1)
    run = H.Runner(version, vlevel=vlevel)
    nt = False
    n_fail = 0
    kinds = {}
    for step, op in enumerate(case["ops"]):
        if op[0] != "fail":
            try:
                if op[0] == "header_ok":
                    run.gfa.add_line(op[1])
                else:
                    run.apply(op)
            except Exception as e:
                raise Violation("legal-step", "legal step %d %r raised %s: %s\n%s" % (step, op, type(e).__name__, str(e)[:300], run.model.text()),
                                "%s/%s" % (op[0], type(e).__name__))
            continue
        if vlevel == 0:
            # warm-up read: without validation the first access decodes lazily parsed fields and may re-spell
            # them (the property on purity names this as intended); the snapshot is taken after that
            for l in O.all_lines(run.gfa, split_headers=False):
                for fn in list(l.positional_fieldnames) + list(l.tagnames):
                    try:
                        l.get(fn)
                    except Exception:
                        pass
        before = full_obs(run.gfa)
        btext = str(run.gfa)
        e = do_fail(run, op)
        if e is None:
            return {"nt": nt, "unexpected_success:" + op[1] + ":" + str(op[-1]): True}
        after = full_obs(run.gfa)
        atext = str(run.gfa)
        n_fail += 1
        kinds["refused:%s%s" % (op[-1], "@v0" if vlevel == 0 else "")] = True
        inst = getattr(run, "last_instance", None)
        if op[1] == "add_instance" and inst is not None:
            run.last_instance = None
            # the refused line object is not part of the Gfa and the caller may go on using it
            if inst.is_connected() or inst.gfa is not None:
                raise Violation("refused-instance-connected", "step %d: the refused Line instance of %r reports to be connected to the Gfa" % (step, op), op[-1])
            try:
                if inst.get("name") is not None and not gfapy.is_placeholder(inst.get("name")):
                    inst.name = "zq_free_name"
                inst.set("zz", 1)
            except Exception:
                pass
            if full_obs(run.gfa) != before or str(run.gfa) != btext:
                raise Violation("refused-instance-aliased", "step %d: editing the refused Line instance of %r changed the Gfa:\n%s" % (
                    step, op, O.obs_diff(before, full_obs(run.gfa))), op[-1])
        if after != before or atext != btext:
            raise Violation("state-changed", "step %d: the failing call %r raised %s (%s) but the Gfa changed:\n%s\n-- before --\n%s\n-- after --\n%s" % (
                step, op, type(e).__name__, str(e)[:150].replace("\n", " | "), O.obs_diff(before, after), btext, atext),
                "%s/%s" % (op[1], op[-1]))
        if op[1] == "set_new":
            # nothing of the refused tag stays behind: no datatype, and a valid value given
            # afterwards is written with its own default datatype
            line, name = run.last_line, op[3]
            try:
                dt = line.get_datatype(name)
                line.set(name, 5)
                tag = line.field_to_s(name, tag=True)
                line.delete(name)
            except Exception as e2:
                raise Violation("refused-tag-left-state", "step %d: after the refused %r a valid set(%r, 5) raised %s: %s" % (
                    step, op, name, type(e2).__name__, str(e2)[:200]), op[-1])
            if dt is not None or tag != name + ":i:5":
                raise Violation("refused-tag-left-state", "step %d: after the refused %r: get_datatype(%r) = %r, set(%r, 5) written as %r" % (
                    step, op, name, dt, name, tag), op[-1])
            if full_obs(run.gfa) != before or str(run.gfa) != btext:
                raise Violation("state-changed", "step %d: set/delete of %r after the refused call left the Gfa changed" % (step, name), op[-1])
        probs = O.invariants(run.gfa)
        if probs:
            raise Violation("invariant", "after the failing call %r: %s" % (op, probs[:3]))
        if op[1] in ("add", "add_instance", "header"):
            f = op[2].split("\t")
            if len(f) >= 4:
                nt = True
    # the history must remain usable: compare with the model at the end
    try:
        got = G.canon_doc(run.real_text(), version)
    except Exception as e:
        raise Violation("unparsable", "final text not parsable: %s\n%s" % (e, run.real_text()))
    want = G.canon_doc(run.model.text(), version)
    hdr = [k for k in got if k[0] == "H"]
    for k in hdr:
        del got[k]
    if got != want:
        raise Violation("final-content", "after the history (failing calls caught) content differs from the model: %s\n%s" % (
            G.counter_diff(want, got), run.model.text()))
    return dict(kinds, nt=nt and n_fail > 0, n_fail=min(n_fail, 5), version=version)


# ---------------------------------------------------------------- failing call builders

GARBAGE = ["a b\x7f", " ", "\x7f", "é é"]


def corrupt(r, line_plain, version):
    rec = G.Rec.from_plain(line_plain, version)
    k = r.randrange(4)
    if k == 0 and rec.pos and rec.rt in G.POS[version]:
        i = r.randrange(len(rec.pos))
        rec.pos[i] = gen.choice(r, GARBAGE)
        return rec.text(), "malformed_field"
    if k == 1:
        return rec.text() + "\t" + gen.choice(r, ["zz:i:abc", "zz:f:x", "zz:H:xyz", "zz:B:c,1000", "zz:J:{", "zz:A:ab", "z:i:1", "zz:Q:1"]), "malformed_tag"
    if k == 2:
        return rec.text() + "\tzz:i:1\tzz:i:2", "duplicate_tag"
    pre = {"gfa1": {"S": "LN:Z:x", "L": "MQ:Z:x", "C": "NM:Z:x", "P": None}, "gfa2": {"S": "RC:Z:x", "E": "TS:Z:x", "F": "TS:Z:x"}}[version].get(rec.rt)
    if pre and rec.tag(pre[:2]) is None:
        return rec.text() + "\t" + pre, "predefined_type"
    return rec.text() + "\tzz:i:1\tzz:i:2", "duplicate_tag"


def real_named_(m, version):
    return [x for x in m.recs if M.name_of(x) is not None and not (version == "gfa1" and x.rt in "LC")]


def build_fail(st, r, lazy=False):
    """A call built to fail in the current model state, or None."""
    version = st.version
    m = st.model
    names = m.names()
    fresh = [n for n in ["f1", "f2", "f3", "f4"] if n not in names and n not in m.undefined_mentions()]
    fa = fresh[0] if fresh else "zz1"
    fb = fresh[1] if len(fresh) > 1 else "zz2"
    k = gen.choice(r, [0, 1, 1, 1, 2, 3, 4, 5, 6, 7, 8, 9, 10, 10, 11, 12, 13, 13, 14, 14, 15, 16, 17, 18])
    if lazy and version == "gfa2" and gen.chance(r, 0.3):
        k = 18
    if version == "gfa2" and gen.chance(r, 0.5) and any(n in H.POOL["E"] for n in m.undefined_mentions()):
        k = 14  # an edge that a group is waiting for
    if gen.fair(r, 0.05):
        # None removes a tag; given to a positional field of a connected line it is no value at all
        fields = {"F": ["external", "s_beg", "alignment"], "S": ["sequence"], "C": ["pos"], "L": ["overlap"], "E": ["beg1", "alignment"], "G": ["disp", "var"]}
        cands = [i_ for i_, x in enumerate(m.recs) if x.rt in fields]
        pref = [i_ for i_ in cands if m.recs[i_].rt == "F"]
        if cands:
            i = gen.choice(r, pref) if pref and gen.chance(r, 0.5) else gen.choice(r, cands)
            return ["fail", "set", i, gen.choice(r, fields[m.recs[i].rt]), None, gen.choice(r, ["set", "attr"]), "positional_none"]
    if gen.fair(r, 0.012):
        # an identifier of several thousand decimal digits (beyond what int() converts): legal, so the call is expected
        # to succeed (which ends the case); should it raise, at whatever stage, the Gfa has to be as before
        big = "9" * 4400
        if real_named_(m, version) and gen.chance(r, 0.5):
            cands = [i_ for i_, x in enumerate(m.recs) if M.name_of(x) is not None and not (version == "gfa1" and x.rt in "LC")]
            return ["fail", "rename", gen.choice(r, cands), big, "huge_decimal_name"]
        text = ("L\t%s\t+\t%s\t-\t*\tID:Z:%s" % (fa, fb, big)) if version == "gfa1" else gen.choice(r, [
            "E\t%s\t%s+\t%s-\t0\t1\t0\t1\t*" % (big, fa, fb), "G\t%s\t%s+\t%s-\t5\t*" % (big, fa, fb), "U\t%s\t%s %s" % (big, fa, fb)])
        return ["fail", "add", text, "huge_decimal_name"]
    if k == 18 and version == "gfa2":
        # an ordered group whose second item is not an oriented identifier: refused when the line is parsed,
        # or (vlevel 0) only when its items are resolved, after a placeholder for the first item was made;
        # the line may be the continuation of a group which exists
        groups = [M.name_of(x) for x in m.recs if x.rt == "O" and M.name_of(x) is not None]
        nm = gen.choice(r, groups) if groups and gen.chance(r, 0.7) else fb
        bad = gen.choice(r, ["b", "A", "2"])
        return ["fail", "add", "O\t%s\t%s+ %s" % (nm, fa, bad), "ordered_item_without_orientation"]
    if k == 15:
        # a further value of a header tag that the tag's datatype cannot hold (zv is i, zx is Z and multi-valued)
        args = gen.choice(r, [["zv", "abc"], ["zv", "1x", "i"], ["zx", "a\tb"], ["TS", "x"], ["zv", 2.5]])
        return ["fail", "header_add", args, "header_add_wrong_kind"]
    if k == 16 and m.segment_names():
        a = gen.choice(r, m.segment_names())
        pend = sorted(n for n in m.undefined_mentions() if n in H.POOL["E"] + H.POOL["G"])
        if version == "gfa2" and pend and gen.chance(r, 0.6):
            fa = gen.choice(r, pend)  # an identifier that a group is already waiting for
        if version == "gfa1" and "," in a:
            return None
        text = gen.choice(r, ["L\t%s\t+\t%s\t-\t*\tID:Z:%s" % (fa, a, fa), "P\t%s\t%s+,%s+\t*" % (fa, a, fa)]) if version == "gfa1" else \
            gen.choice(r, ["E\t%s\t%s+\t%s+\t0\t1\t0\t1\t*" % (fa, a, fa), "G\t%s\t%s-\t%s+\t5\t*" % (fa, fa, a)])
        return ["fail", "add", text, "self_mention"]
    if k == 17 and m.segment_names():
        return ["fail", "multiply", gen.choice(r, m.segment_names()), r.randint(2, 3), gen.choice(r, ["zzz", "l", "both"]), "multiply_unknown_policy"]
    real_named = [x for x in m.recs if M.name_of(x) is not None and not (version == "gfa1" and x.rt in "LC")]
    if k == 0 and real_named:
        nm = M.name_of(gen.choice(r, real_named))
        if version == "gfa1":
            text = gen.choice(r, ["S\t%s\t*\txx:i:1" % nm, "P\t%s\t%s+,%s-\t*\txx:i:1" % (nm, fa, fb)])
        else:
            text = gen.choice(r, ["S\t%s\t10\t*" % nm, "E\t%s\t%s+\t%s-\t0\t1\t0\t1\t*\txx:i:1\tab:Z:q" % (nm, fa, fb),
                                  "G\t%s\t%s+\t%s-\t5\t*" % (nm, fa, fb)])
        if gen.chance(r, 0.4):
            return ["fail", "add_instance", text, version, "duplicate_id_instance"]
        return ["fail", "add", text, "duplicate_id"]
    if k == 1 and version == "gfa2" and real_named:
        groups = [x for x in real_named if x.rt in "OU" and len(x.tags) >= 1]
        rich = [x for x in groups if len(x.tags) >= 2]
        tgt = gen.choice(r, rich) if rich and gen.chance(r, 0.7) else (
            gen.choice(r, groups) if groups and gen.chance(r, 0.6) else gen.choice(r, real_named))
        nm = M.name_of(tgt)
        kind = gen.choice(r, "OU")
        if tgt.rt == kind:
            # same kind: a legal merge unless a tag contradicts; any of the tags may be the
            # contradicted one, the others are repeated unchanged or omitted
            if not tgt.tags:
                return None
            j = r.randrange(len(tgt.tags))
            out = []
            for i_, (n_, t_, v_) in enumerate(tgt.tags):
                if i_ == j:
                    other = {"i": str(int(v_) + 1) if t_ == "i" else "", "Z": v_ + "x", "A": "b" if v_ != "b" else "c",
                             "f": "123.25" if v_ != "123.25" else "5.5", "J": '["other"]' if v_ != '["other"]' else "[]",
                             "H": "AB" if v_ != "AB" else "CD", "B": "c,9" if v_ != "c,9" else "c,8"}[t_]
                    out.append("%s:%s:%s" % (n_, t_, other))
                elif gen.chance(r, 0.4):
                    out.append("%s:%s:%s" % (n_, t_, v_))
            items = (fa + "+ " + fb + "-") if kind == "O" else (fa + " " + fb)
            return ["fail", "add", "\t".join([kind, nm, items] + out), "group_tag_conflict"]
        items = (fa + "+") if kind == "O" else fa
        return ["fail", "add", "%s\t%s\t%s\txx:i:1\tab:Z:q" % (kind, nm, items), "group_named_like_other"]
    if k == 2 and version == "gfa1":
        links = [x for x in m.recs if x.rt == "L"]
        if links and gen.chance(r, 0.6):
            if gen.chance(r, 0.4):
                return ["fail", "add_instance", gen.choice(r, links).text(), version, "same_link_again_instance"]
            return ["fail", "add", gen.choice(r, links).text(), "same_link_again"]
        segs_ = m.segment_names()
        if len(segs_) >= 1:
            # a path whose overlap count does not match, as an instance built without validation
            a_, b_ = gen.choice(r, segs_), gen.choice(r, segs_ + [fa])
            return ["fail", "add_instance", "P\tpzz\t%s+,%s-,%s+\t1M" % (a_, b_, fb), version, "path_overlap_count_v0"]
        return None
    if k == 3:
        other = "gfa2" if version == "gfa1" else "gfa1"
        text = {"gfa2": gen.choice(r, ["E\t*\t%s+\t%s-\t0\t1\t0\t1\t*" % (fa, fb), "S\t%s\t10\t*" % fa, "G\t*\t%s+\t%s-\t1\t*" % (fa, fb), "U\tuq\t%s" % fa, "X\tcustom"]),
                "gfa1": gen.choice(r, ["L\t%s\t+\t%s\t-\t*" % (fa, fb), "S\t%s\t*" % fa, "C\t%s\t+\t%s\t-\t0\t*" % (fa, fb), "P\tpq\t%s+\t*" % fa])}[other]
        if gen.chance(r, 0.5):
            return ["fail", "add", text, "other_version"]
        return ["fail", "add_instance", text, other, "other_version_instance"]
    if k in (4, 5):
        line = H.new_record(st, r)
        if line is None or line[0] == "#":
            return None
        text, what = corrupt(r, line, version)
        return ["fail", "add", text, what]
    if k == 6:
        cands = [i for i, x in enumerate(m.recs) if x.rt in ("L", "C", "E", "G", "F", "P", "O", "U")]
        if not cands:
            return None
        i = gen.choice(r, cands)
        rt = m.recs[i].rt
        field = {"L": ["from_segment", "to_segment", "from_orient", "overlap"], "C": ["from_segment", "to_segment"],
                 "E": ["sid1", "sid2", "beg1", "end2"], "G": ["sid1", "sid2"], "F": ["sid"], "P": ["segment_names"],
                 "O": ["items"], "U": ["items"]}[rt]
        return ["fail", "set", i, gen.choice(r, field), "A", gen.choice(r, ["set", "attr"]), "readonly_field"]
    if k == 7 and gen.chance(r, 0.5) and real_named:
        # an identifier which is not valid for the record type (refused at vlevel >= 1)
        i = next(i_ for i_, x in enumerate(m.recs) if x is gen.choice(r, real_named) or True)
        cands = [i_ for i_, x in enumerate(m.recs) if M.name_of(x) is not None and not (version == "gfa1" and x.rt in "LC")]
        return ["fail", "rename", gen.choice(r, cands), gen.choice(r, ["a b", "x\ty", "é"]), "invalid_name_vlevel3"]
    if k == 7:
        return ["fail", gen.choice(r, ["rm", "try_get"]), gen.choice(r, ["nowhere", "*", fa]), "unknown_name"]
    if k == 8:
        cands = [i for i, x in enumerate(m.recs) if any(t[1] in "ifHB" and t[0] in gen.TAG_NAMES for t in x.tags)]
        if not cands:
            return None
        i = gen.choice(r, cands)
        n_, t_, _v = [t for t in m.recs[i].tags if t[1] in "ifHB" and t[0] in gen.TAG_NAMES][0]
        return ["fail", "set", i, n_, {"i": "12x", "f": "1.2.3", "H": "XYZ", "B": "c,999"}[t_], "set", "invalid_value_vlevel3"]
    if k == 14 and version == "gfa2":
        # the line a placeholder is waiting for arrives (as a Line object read without validation)
        # with intervals that are refused when it is connected
        pend = [n for n in sorted(m.undefined_mentions()) if n in H.POOL["E"]]
        segs = m.segment_names()
        if not pend or not segs:
            return None
        a, b = gen.choice(r, segs), gen.choice(r, segs)
        longer = [x for x in segs if st.slen.get(x, 0) >= 2 and x in st.seq]
        if longer and gen.chance(r, 0.5):
            # ... or, as text, with a '$' on a position which is not the last one of a segment whose sequence is
            # given (gfapy reports that on validate(), not here: the call is then expected to succeed)
            return ["fail", "add", "E\t%s\t%s+\t%s-\t0\t1$\t0\t0\t*" % (gen.choice(r, pend), gen.choice(r, longer), b), "dollar_not_last_on_awaited"]
        return ["fail", "add_instance", "E\t%s\t%s+\t%s-\t5\t2\t0\t1\t*" % (gen.choice(r, pend), a, b), version,
                "bad_interval_on_placeholder_v0"]
    if k == 13:
        # a line that uses the identifier of a line of another type where a segment stands
        other = [M.name_of(x) for x in real_named if x.rt != "S"]
        segs = m.segment_names()
        if not other or not segs:
            return None
        nm, a = gen.choice(r, other), gen.choice(r, segs)
        if version == "gfa1":
            if "," in nm:
                return None
            text = gen.choice(r, ["L\t%s\t+\t%s\t-\t*" % (a, nm), "L\t%s\t-\t%s\t+\t3M" % (nm, a), "C\t%s\t+\t%s\t+\t0\t*" % (a, nm),
                                  "P\t%s\t%s+,%s+\t*" % (fa, a, nm), "P\t%s\t%s-,%s+,%s+\t*" % (fa, a, a, nm)])
        else:
            text = gen.choice(r, ["E\t*\t%s+\t%s-\t0\t1\t0\t1\t*" % (a, nm), "E\t%s\t%s-\t%s+\t0\t1\t0\t1\t*" % (fa, nm, a),
                                  "G\t*\t%s+\t%s+\t5\t*" % (a, nm), "F\t%s\tread1+\t0\t1\t0\t1\t*" % nm])
        if gen.chance(r, 0.4):
            return ["fail", "add_instance", text, version, "segment_is_other_type_instance"]
        return ["fail", "add", text, "segment_is_other_type"]
    if k == 12:
        cands = [i for i, x in enumerate(m.recs) if x.rt not in ("#", "H")]
        if not cands:
            return None
        return ["fail", "set_new", gen.choice(r, cands), "zn", gen.choice(r, sorted(NEW_TAG_VALUES)), "invalid_new_tag_vlevel3"]
    if k == 9:
        line = H.new_record(st, r)
        if line is None or line[0] in "#":
            return None
        return ["fail", "add_connected", G.Rec.from_plain(line, version).text(), "connected_instance"]
    if k == 10:
        # zx is already multi-valued, zv single-valued, zy new: all three must be taken back
        pre = gen.choice(r, ["zy:i:1\tzx:Z:ok", "zx:Z:third", "zv:i:8\tzx:Z:more", "zy:i:1"])
        return ["fail", "header", "H\t" + pre + "\t" + gen.choice(r, ["VN:Z:9.9", "TS:i:77"]), "header_conflict"]
    return ["fail", "header", "H\tzw:i:5\tzx:i:3", "header_datatype_clash"]


LAZY_KINDS = ("duplicate_id", "duplicate_id_instance", "group_tag_conflict", "group_named_like_other", "same_link_again",
              "same_link_again_instance", "other_version", "other_version_instance", "self_mention", "multiply_unknown_policy",
              "unknown_name", "readonly_field", "ordered_item_without_orientation", "huge_decimal_name", "positional_none")


def gen_case(r, version):
    vlevel = 0 if gen.fair(r, 0.2) else gen.choice(r, [1, 1, 2, 3])
    st_ = H.GenState(version)
    ops = []
    if gen.chance(r, 0.7):
        doc = gen.build_gfa1(r, {"names": H.POOL["S"], "nseg": (1, 4), "both_forms": False, "headers": False,
                                  "ids": False, "shuffle": False, "comments": False}) if version == "gfa1" else \
            gen.build_gfa2(r, {"names": H.POOL["S"], "nseg": (1, 4), "headers": False, "shuffle": False,
                                "comments": False, "groups": True})
        for l in doc["lines"]:
            if l[0] == "S":
                seq = l[1][1] if version == "gfa1" else l[1][2]
                st_.slen[l[1][0]] = doc["slen"].get(l[1][0], 8)
                if seq != "*":
                    st_.seq[l[1][0]] = seq
            rec = H.model_add(st_, l)
            if rec.rt == "L":
                st_.ov_policy[M.ends_key(*rec.pos[:4])] = "*" if rec.pos[4] == "*" else "spec"
        ops.append(["load", doc["lines"]])
    # header lines which make header conflicts possible
    ops.append(["header_ok", "H\tVN:Z:%s\tTS:i:5\tzx:Z:first\tzv:i:7" % ("1.0" if version == "gfa1" else "2.0")])
    ops.append(["header_ok", "H\tzx:Z:second"])
    for _ in range(r.randint(3, 14)):
        if version == "gfa2" and gen.fair(r, 0.08) and st_.model.segment_names():
            # a set that waits for an edge which is not there yet (what the awaited-edge kinds need)
            taken = set(st_.model.names()) | set(st_.model.undefined_mentions())
            en = [n for n in H.POOL["E"] if n not in taken]
            un = [n for n in H.POOL["U"] if n not in taken]
            if en and un:
                line = ["U", [un[0], "%s %s" % (en[0], gen.choice(r, st_.model.segment_names()))], []]
                H.model_add(st_, line)
                ops.append(["add", line, False])
        if gen.chance(r, 0.55):
            f = build_fail(st_, r, lazy=(vlevel == 0))
            if f is None:
                continue
            if f[-1] in ("invalid_value_vlevel3", "invalid_new_tag_vlevel3") and vlevel < 3:
                continue
            if f[-1] == "invalid_name_vlevel3" and vlevel < 1:
                continue  # (the name of the kind is historical: an invalid name is refused from vlevel 1 on, D79)
            if f[-1] in ("header_datatype_clash", "header_add_wrong_kind") and vlevel < 2:
                continue
            if vlevel == 0 and f[-1] not in LAZY_KINDS:
                continue  # (most malformed input is, as documented, not looked at without validation)
            ops.append(f)
        else:
            x = r.random()
            rem = H.removable(st_)
            if x < 0.25 and rem:
                i = gen.choice(r, rem)
                rec = st_.model.recs[i]
                ops.append(["rm_i", i])
                st_.model.remove(rec)
            else:
                line = H.new_record(st_, r)
                if line is None:
                    continue
                H.model_add(st_, line)
                ops.append(["add", line, gen.chance(r, 0.3)])
    return {"version": version, "vlevel": vlevel, "ops": ops}


def st_case(version):
    @st.composite
    def s(draw):
        r = draw(st.randoms(use_true_random=False))
        return gen_case(r, version)
    return s()


# ---------------------------------------------------------------- unknown version

def prop_unknown(case):
    g = gfapy.Gfa(vlevel=case["vlevel"])
    for l in case["pre"]:
        try:
            g.add_line(l)
        except Exception as e:
            raise Violation("legal-step", "queued line %r raised %s: %s" % (l, type(e).__name__, str(e)[:200]))
    def snap():
        return {"version": g.version, "queue": [str(x) for x in g._line_queue], "header": str(g.header),
                "lines": sorted(map(str, g.lines)), "names": sorted(map(str, g.names)), "placeholders": len(O.placeholders(g))}
    before = snap()
    try:
        g.add_line(case["fail"])
    except Exception as e:
        after = snap()
        if after != before:
            diff = {k: (before[k], after[k]) for k in before if before[k] != after[k]}
            raise Violation("state-changed", "failing call add_line(%r) raised %s but the Gfa (version unknown) changed: %r\nqueued before: %r" % (
                case["fail"], type(e).__name__, diff, case["pre"]), case["what"])
        # the Gfa must remain usable
        try:
            g.add_line("S\tzz\t*" if case["then"] == "gfa1" else "S\tzz\t7\t*")
            g.process_line_queue()
        except Exception as e2:
            if case.get("then_ok", True):
                raise Violation("unusable", "after the refused call the Gfa cannot be completed: %s: %s\nqueued: %r, refused: %r" % (
                    type(e2).__name__, str(e2)[:200], case["pre"], case["fail"]), case["what"])
        return {"nt": True, "what": case["what"]}
    return {"nt": False, "unexpected_success:" + case["what"]: True}


@st.composite
def st_unknown(draw):
    r = draw(st.randoms(use_true_random=False))
    v = gen.choice(r, ["gfa1", "gfa2"])
    pool1 = ["L\tA\t+\tB\t-\t*", "C\tA\t+\tB\t-\t0\t*", "P\tp\tA+,B-\t*", "# c", "H\tzx:Z:first", "H\tTS:i:5"]
    pool2 = ["X\tcustom\txx:i:1", "# c", "H\tzx:Z:first", "H\tTS:i:5", "Y\tf"]
    pre = [gen.choice(r, pool1 if v == "gfa1" else pool2) for _ in range(r.randint(0, 4))]
    pre = list(dict.fromkeys(pre))
    what, fail = gen.choice(r, [("unsupported_VN", "H\tzy:i:1\tVN:Z:3.0"), ("unsupported_VN", "H\tVN:Z:3.0"),
                                ("header_conflict", "H\tzy:i:1\tTS:i:6"), ("malformed_header", "H\tzy:i:1\tzz:i:x"),
                                ("header_conflict", "H\tVN:Z:%s\tTS:i:6" % ("1.0" if v == "gfa1" else "2.0")),
                                ("header_conflict", "H\tTS:i:6\tVN:Z:%s" % ("1.0" if v == "gfa1" else "2.0")),
                                ("header_conflict", "H\tzy:i:1\tVN:Z:%s\tzx:i:3" % ("1.0" if v == "gfa1" else "2.0")),
                                ("malformed_segment", "S\tA\t10"), ("malformed_segment", "S\ta b\t*"),
                                ("malformed_edge", "E\t*\tA+\tB-\t5\t3\t0\t1\t*\txx:i:q"),
                                ("malformed_gap", "G\t*\tA+\tB-\tx\t*")])
    if gen.chance(r, 0.15):
        # a line that can only be judged once the version is known waits in the queue and is
        # refused then: the call that fixes the version fails and must leave the Gfa as it was (D86)
        pre = [x for x in pre if not x.startswith("H")] + [gen.choice(r, ["L\tA\t+\tB", "L\tA\t+\tB\t+\t5Q", "C\tA\t+\tB\t+\tx\t*"])]
        what, fail = "deciding_line_with_refused_queued_line", gen.choice(r, ["S\tzz\t*", "H\tVN:Z:1.0", "S\tzz\t7\t*", "E\t*\tzz+\tzy+\t0\t1\t0\t1\t*"])
    if what == "header_conflict" and "H\tTS:i:5" not in pre:
        pre.append("H\tTS:i:5")
    if what == "header_conflict" and "zx:i:3" in fail and "H\tzx:Z:first" not in pre:
        pre.append("H\tzx:Z:first")
    then_ok = not (what.startswith("malformed_e") or what.startswith("malformed_g")) or v == "gfa2"
    return {"vlevel": gen.choice(r, [1, 2, 3]), "pre": pre, "fail": fail, "what": what, "then": v, "then_ok": False}


def parts(tier):
    q = tier == "quick"
    n = 200 if q else 900
    return [Part("gfa1", prop, strategy=st_case("gfa1"), n=n, quick_shards=2),
            Part("gfa2", prop, strategy=st_case("gfa2"), n=n, quick_shards=2),
            Part("unknown-version", prop_unknown, strategy=st_unknown(), n=300 if q else 1500)]
