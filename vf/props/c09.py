"""C09 Identifiers are unique; lookup and renaming stay coherent."""
from hypothesis import strategies as st

from .. import gen, grammar as G, history as H, model as M, observe as O
from ..env import gfapy, GfapyError
from ..runner import Part, Violation

ID = "C09"
ATHERIS = ['gfa1', 'gfa2']  # parts also driven by libFuzzer in the thorough tier (vf/runner.py: all_parts)
RULE = ("model-based histories over every identified record type (S, P, L/C with ID tag, E, G, O, U): add and "
        "rename to a fresh identifier, to one in use by the same type, to one in use by another type, to '*', to "
        "integer-looking names; a mentioned E/G/O/U line to '*' (must be refused, state unchanged); ID tags of links/containments deleted or set to None; interleaved unused_name() calls and removals. After every step: names has no "
        "duplicates and equals the model's namespace; the per-kind name lists partition it; line(n) is the line "
        "whose current name is n for every n (segment(n) too for segments); unused strings give None / "
        "NotFoundError; unused_name() is not in names. A collision with a real line must raise NotUniqueError and "
        "leave the observation unchanged - except the documented U/U and O/O merge on add (required) and on "
        "rename (merge or NotUniqueError), and a link equal to the complement of a stored link; after a successful "
        "rename the written document equals the model text with the identifier substituted. non-trivial = >= 1 "
        "cross-type collision attempt and >= 1 successful rename of a referenced line; distinct by hash")
ASSUMPTIONS = [
    "collisions are attempted only against real (defined) lines; a rename onto an identifier that is only mentioned (placeholder) may either substitute the placeholder or raise NotUniqueError, provided the state stays coherent",
    "GFA1 names used in paths contain no comma",
]
UNUSED_PROBES = ["nowhere", "zz_9", "A+", "0"]


def check_namespace(run, ctx):
    g, m = run.gfa, run.model
    names = [str(x) for x in g.names]
    if len(names) != len(set(names)):
        raise Violation("duplicate-names", "%s: gfa.names has duplicates: %s" % (ctx, sorted(names)))
    want = sorted(m.names())
    real = sorted(n for n in names if _is_real(g, n))
    if real != want:
        raise Violation("namespace", "%s: names of real lines %s, expected %s\n%s" % (ctx, real, want, m.text()))
    # identifiers known to the Gfa without a line that carries them: exactly those which some
    # line mentions (placeholders); a name nobody carries or mentions is not in use
    mentioned = set(m.undefined_mentions())
    ghosts = sorted(n for n in names if n not in want and n not in mentioned)
    if ghosts:
        raise Violation("namespace-ghost", "%s: names lists %s, which no line carries or mentions\n%s" % (ctx, ghosts, m.text()))
    for n in H.POOL["S"] + H.POOL["E"] + H.POOL["G"] + H.POOL["O"] + H.POOL["U"] + H.POOL["P"]:
        if n not in want and n not in mentioned and (g.line(n) is not None):
            raise Violation("lookup-ghost", "%s: line(%r) returns %r although no line carries or mentions that identifier" % (ctx, n, O.line_text(g.line(n))))
    parts = [list(map(str, x)) for x in (g.segment_names, g.edge_names, g.gap_names, g.path_names, g.set_names)]
    flat = sorted(n for p in parts for n in p)
    if flat != sorted(names):
        raise Violation("partition", "%s: per-kind name lists %s do not partition names %s" % (ctx, parts, sorted(names)))
    for rec in m.recs:
        n = M.name_of(rec)
        if n is None:
            continue
        l = g.line(n)
        if l is None:
            raise Violation("lookup-none", "%s: gfa.line(%r) is None but %r carries that identifier" % (ctx, n, rec.text()), rec.rt)
        try:
            ln = l.name
        except Exception:
            ln = None
        if str(ln) != n or l.record_type != rec.rt:
            raise Violation("lookup-wrong", "%s: gfa.line(%r) returns %r" % (ctx, n, O.line_text(l)), rec.rt)
        try:
            if g.try_get_line(n) is not l:
                raise Violation("lookup-wrong", "%s: try_get_line(%r) differs from line()" % (ctx, n))
        except GfapyError as e:
            raise Violation("lookup-raises", "%s: try_get_line(%r) raised %s" % (ctx, n, type(e).__name__), rec.rt)
        if rec.rt == "S":
            if g.segment(n) is not l or g.try_get_segment(n) is not l:
                raise Violation("lookup-wrong", "%s: segment(%r) is not line(%r)" % (ctx, n, n))
        elif g.segment(n) is not None:
            raise Violation("lookup-wrong", "%s: segment(%r) returns a %s line" % (ctx, n, rec.rt))
    taken = set(names)
    for p in UNUSED_PROBES:
        if p in taken or p in m.undefined_mentions():
            continue
        if g.line(p) is not None or g.segment(p) is not None:
            raise Violation("lookup-ghost", "%s: line(%r) returns something for an unused identifier" % (ctx, p))
        try:
            g.try_get_line(p)
            raise Violation("lookup-ghost", "%s: try_get_line(%r) does not raise" % (ctx, p))
        except gfapy.NotFoundError:
            pass
        except GfapyError as e:
            raise Violation("lookup-error-class", "%s: try_get_line(%r) raised %s, not NotFoundError" % (ctx, p, type(e).__name__))


def _is_real(g, n):
    l = g.line(n)
    if l is not None:
        return not l.virtual
    # L/C identified by ID tag
    for x in g._gfa1_links + g._gfa1_containments:
        if str(x.get("ID")) == n:
            return not x.virtual
    return True


def prop(case):
    version = case["version"]
    run = H.Runner(version, vlevel=case.get("vlevel", 1))
    labels = {"nt": False}
    cross = renamed_ref = False
    for step, op in enumerate(case["ops"]):
        ctx = "after step %d %r" % (step, op)
        kind = op[0]
        if kind == "unused_name":
            try:
                u = run.gfa.unused_name()
            except Exception as e:
                raise Violation("unused_name-raised", "%s: %s" % (ctx, e))
            if not isinstance(u, str) or u in [str(x) for x in run.gfa.names] or run.gfa.line(u) is not None:
                raise Violation("unused_name-used", "%s: unused_name() returned %r which is in use" % (ctx, u))
            continue
        if kind == "unname_mentioned":
            # a line which others mention by its identifier cannot lose it: the mentions could not
            # be written any more.  Refused with a gfapy error, nothing changed.
            rec = run.model.recs[op[1]]
            line = run.find_line(rec)
            if line is None:
                raise Violation("line-lost", "%s: no line for %r" % (ctx, rec.text()))
            before, btext = O.observe(run.gfa), str(run.gfa)
            try:
                line.name = "*"
                raised = None
            except GfapyError as e:
                raised = e
            except Exception as e:
                raise Violation("unname-foreign", "%s: raised %s: %s" % (ctx, type(e).__name__, str(e)[:200]), type(e).__name__)
            if raised is None:
                raise Violation("unname-accepted", "%s: %r, mentioned by other lines, was made unnamed:\n%s" % (ctx, rec.text(), str(run.gfa)), rec.rt)
            if O.observe(run.gfa) != before or str(run.gfa) != btext:
                raise Violation("collision-changed-state", "%s: the refused call changed the Gfa" % ctx, "unname")
            check_namespace(run, ctx)
            continue
        if kind == "convert":
            # a conversion to GFA2 hands identifiers out to the links and containments which have none, in the
            # SOURCE Gfa (written there as ID tags): they are identifiers like any other - listed, found by lookup,
            # refused for further lines.  (Last step of a history: the generator cannot know the numbers.)
            if not run.model.is_closed():
                # (a path whose link is not there yet holds a placeholder link, which the conversion has to give an
                #  identifier too: such names belong to no line of the text - the step is left out)
                labels["converted"] = "skipped-open"
                continue
            unnamed = []
            for rec in run.model.recs:
                if rec.rt in "LC" and not rec.tag("ID"):
                    line = run.find_line(rec)
                    if line is None:
                        raise Violation("line-lost", "%s: no line for %r" % (ctx, rec.text()))
                    unnamed.append((rec, line))
            try:
                run.gfa.to_gfa2_s()
                labels["converted"] = True
            except GfapyError:
                labels["converted"] = False
            except Exception as e:
                raise Violation("convert-foreign", "%s: to_gfa2_s() raised %s: %s" % (ctx, type(e).__name__, str(e)[:200]), type(e).__name__)
            given = []
            for rec, line in unnamed:
                v = line.get("ID")
                if v is not None:
                    rec.tags = list(rec.tags) + [("ID", "Z", str(v))]
                    given.append(str(v))
            labels["ids_given"] = bool(given)
            check_namespace(run, ctx)
            for v in given:
                before, btext = O.observe(run.gfa), str(run.gfa)
                try:
                    run.gfa.add_line("S\t%s\t*" % v)
                except gfapy.NotUniqueError:
                    if O.observe(run.gfa) != before or str(run.gfa) != btext:
                        raise Violation("collision-changed-state", "%s: the refused call changed the Gfa" % ctx, "convert")
                    continue
                except Exception as e:
                    raise Violation("collision-error-class", "%s: a segment named like the identifier %r given by the conversion raised %s" % (ctx, v, type(e).__name__), "convert")
                raise Violation("collision-accepted", "%s: a segment named %r was accepted although the conversion gave that identifier to a link\n%s" % (ctx, v, str(run.gfa)), "convert")
            continue
        if kind == "rename_pending":
            # a rename to an identifier which other lines mention and no line defines yet: gfapy refuses it; if a
            # library accepts it, the renamed line must BE the line those mentions resolve to.  Either way the
            # namespace and the reference graph stay coherent
            rec = run.model.recs[op[1]]
            line = run.find_line(rec)
            if line is None:
                raise Violation("line-lost", "%s: no line for %r" % (ctx, rec.text()))
            before, btext = O.observe(run.gfa), str(run.gfa)
            try:
                line.name = op[2]
                raised = None
            except GfapyError as e:
                raised = e
            except Exception as e:
                raise Violation("rename-foreign", "%s: raised %s: %s" % (ctx, type(e).__name__, str(e)[:200]), type(e).__name__)
            labels["rename_pending"] = "refused" if raised is not None else "accepted"
            if raised is not None:
                if O.observe(run.gfa) != before or str(run.gfa) != btext:
                    raise Violation("collision-changed-state", "%s: the refused call changed the Gfa:\n%s" % (ctx, O.obs_diff(before, O.observe(run.gfa))), "rename_pending")
                check_namespace(run, ctx)
                continue
            probs = O.invariants(run.gfa)
            if probs:
                raise Violation("invariant", "%s: a rename to an identifier that lines are waiting for was accepted, and then: %s\n%s" % (ctx, probs[:4], str(run.gfa)), "rename_pending")
            got = [x for x in run.gfa.names if str(x) == op[2]]
            if len(got) != 1 or run.gfa.line(op[2]) is not line:
                raise Violation("lookup-wrong", "%s: after the accepted rename names holds %r %d times and line(%r) is %r" % (
                    ctx, op[2], len(got), op[2], O.line_text(run.gfa.line(op[2])) if run.gfa.line(op[2]) is not None else None), "rename_pending")
            return dict(labels, stopped="rename_pending_accepted")
        if kind in ("collide_add", "collide_rename", "collide_give_id"):
            before = O.observe(run.gfa)
            btext = str(run.gfa)
            what = op[-1]
            if "cross" in what:
                cross = True
            try:
                if kind == "collide_add":
                    run.gfa.add_line(op[1])
                elif kind == "collide_give_id":
                    rec = run.model.recs[op[1]]
                    line = run.find_line(rec)
                    if line is None:
                        raise Violation("line-lost", "%s: no line for %r" % (ctx, rec.text()))
                    if op[3] == "set":
                        line.set("ID", op[2])
                    else:
                        line.ID = op[2]
                else:
                    rec = run.model.recs[op[1]]
                    line = run.find_line(rec)
                    if line is None:
                        raise Violation("line-lost", "%s: no line for %r" % (ctx, rec.text()))
                    line.name = op[2]
                raised = None
            except Violation:
                raise
            except Exception as e:
                raised = e
            if raised is None:
                if what in ("group_merge_add", "group_rename"):
                    # documented merge: apply to the model
                    if kind == "collide_add":
                        newrec = G.split_line(op[1], version)
                        tgt = run.model.by_name(newrec.pos[0])
                        tgt.pos[1] = tgt.pos[1] + " " + newrec.pos[1]
                        for t in newrec.tags:
                            if tgt.tag(t[0]) is None:
                                tgt.tags.append(t)
                    else:
                        return dict(labels, group_rename_merged=True)
                else:
                    raise Violation("collision-accepted", "%s: %s to an identifier in use raised nothing\n-- before --\n%s\n-- after --\n%s" % (
                        ctx, {"collide_add": "adding a line", "collide_give_id": "giving a link/containment the ID"}.get(kind, "renaming"), btext, str(run.gfa)), what)
            else:
                if what == "group_merge_add":
                    raise Violation("merge-refused", "%s: a second %s line with the same identifier must be merged, raised %s: %s" % (
                        ctx, op[1][0], type(raised).__name__, str(raised)[:200]), what)
                if not isinstance(raised, gfapy.NotUniqueError):
                    raise Violation("collision-error-class", "%s: collision raised %s (%s), not NotUniqueError" % (
                        ctx, type(raised).__name__, str(raised)[:200]), what + "/" + type(raised).__name__)
                after = O.observe(run.gfa)
                if after != before or str(run.gfa) != btext:
                    raise Violation("collision-changed-state", "%s: the refused call changed the Gfa:\n%s" % (ctx, O.obs_diff(before, after)), what)
        else:
            if kind == "rename":
                rec = run.model.recs[op[1]]
                old = M.name_of(rec)
                if any(m_[0] == old for r_ in run.model.recs for m_ in M.mentions(r_)):
                    renamed_ref = True
            try:
                if kind == "give_id":
                    # a link or containment without identifier is given one (set() or attribute)
                    rec = run.model.recs[op[1]]
                    line = run.find_line(rec)
                    if line is None:
                        raise LookupError("model record %r has no line in the Gfa" % rec.text())
                    if op[3] == "set":
                        line.set("ID", op[2])
                    else:
                        line.ID = op[2]
                    rec.tags = list(rec.tags) + [("ID", "Z", op[2])]
                elif kind == "drop_id":
                    # an ID-tagged link or containment gives its identifier up
                    rec = run.model.recs[op[1]]
                    line = run.find_line(rec)
                    if line is None:
                        raise LookupError("model record %r has no line in the Gfa" % rec.text())
                    if op[2] == "delete":
                        line.delete("ID")
                    else:
                        line.set("ID", None)
                    rec.tags = [t for t in rec.tags if t[0] != "ID"]
                else:
                    run.apply(op)
            except Exception as e:
                raise Violation("legal-step", "legal step %d %r raised %s: %s\n%s" % (step, op, type(e).__name__, str(e)[:300], run.model.text()),
                                "%s/%s" % (kind, type(e).__name__))
        check_namespace(run, ctx)
        got = G.canon_doc(run.real_text(), version)
        want = G.canon_doc(run.model.text(), version)
        if got != want:
            raise Violation("content", "%s: written document differs from the model: %s\n%s" % (ctx, G.counter_diff(want, got), run.model.text()), kind)
        probs = O.invariants(run.gfa)
        if probs:
            raise Violation("invariant", "%s: %s" % (ctx, probs[:3]))
    labels["nt"] = cross and renamed_ref
    labels["cross_collision"] = cross
    labels["renamed_referenced"] = renamed_ref
    return labels


INT_NAMES = ["5", "17", "007", "42"]


def rename_op(st, r, i, new):
    rec = st.model.recs[i]
    old = M.name_of(rec)
    st.model.rename(rec, new)
    if rec.rt == "S":
        st.seq.pop(new, None)  # a stale plan of an earlier segment of that name
        st.slen[new] = H.seg_len(st, old)
        if old in st.seq:
            st.seq[new] = st.seq[old]
        for ek in list(st.ov_policy):
            if old in (ek[0], ek[2]):
                nk = M.ends_key(new if ek[0] == old else ek[0], ek[1], new if ek[2] == old else ek[2], ek[3])
                st.ov_policy[nk] = st.ov_policy.pop(ek)
    return ["rename", i, new]


def gen_case(r, version):
    st_ = H.GenState(version)
    ops = []
    doc = gen.build_gfa1(r, {"names": H.POOL["S"], "nseg": (2, 4), "both_forms": False, "headers": False,
                              "ids": True, "shuffle": False, "comments": False}) if version == "gfa1" else \
        gen.build_gfa2(r, {"names": H.POOL["S"], "nseg": (2, 4), "headers": False, "shuffle": False,
                            "comments": False, "groups": True})
    if version == "gfa2" and gen.fair(r, 0.1):
        # a Gfa that holds groups only at first (no segment, no edge: everything they mention is pending);
        # the lines they wait for arrive later in the history, after some of the groups were renamed
        keep = [l for l in doc["lines"] if l[0] in "OU" and l[1][0] != "*"]
        if not keep:
            keep = [["O", ["o1", "A+ e1+ B+"], []], ["U", ["u1", "o1 A"], []]]
        doc["lines"] = keep
        doc["groups_only"] = True
    for l in doc["lines"]:
        if l[0] in "OU" and l[1][0] != "*" and gen.chance(r, 0.6) and not any(t[0] == "q9" for t in l[2]):
            l[2].append(["q9", gen.choice(r, ["A", "J"]), gen.choice(r, ["x", "y"])])
            if l[2][-1][1] == "J":
                l[2][-1][2] = gen.choice(r, ["[1, 2]", "[0.5]", "{}"])
        if l[0] == "S":
            seq = l[1][1] if version == "gfa1" else l[1][2]
            st_.slen[l[1][0]] = doc["slen"].get(l[1][0], 8)
            if seq != "*":
                st_.seq[l[1][0]] = seq
        rec = H.model_add(st_, l)
        if rec.rt == "L":
            st_.ov_policy[M.ends_key(*rec.pos[:4])] = "*" if rec.pos[4] == "*" else "spec"
    if doc.get("groups_only"):
        ops.extend(["add", l, False] for l in doc["lines"])  # (line by line: a document with pending references does not validate)
    else:
        ops.append(["load", doc["lines"]])
    merged = set()
    for _ in range(r.randint(4, 16)):
        x = r.random()
        named = [i for i, rec in enumerate(st_.model.recs) if M.name_of(rec) is not None]
        names = st_.model.names()
        if gen.fair(r, 0.07) and st_.model.segment_names():
            # a line that is read before a segment it mentions, then that segment, then the segment renamed: the
            # mention has to follow (containments and links in GFA1, edges and gaps in GFA2, either side)
            free = [n for n in H.POOL["S"] if n not in names and n not in st_.model.undefined_mentions()]
            fresh = [n for n in H.FRESH[20:26] if n not in names and n not in st_.model.undefined_mentions()]
            a = gen.choice(r, st_.model.segment_names())
            if free and fresh and "," not in a:
                f_ = free[0]
                o1, o2 = gen.choice(r, "+-"), gen.choice(r, "+-")
                x_, y_ = (a, f_) if gen.chance(r, 0.5) else (f_, a)
                if version == "gfa1":
                    line = gen.choice(r, [["C", [x_, o1, y_, o2, "0", "*"], []], ["L", [x_, o1, y_, o2, "*"], []]])
                    if line[0] == "L" and M.ends_key(*line[1][:4]) in st_.ov_policy:
                        line = ["C", [x_, o1, y_, o2, "0", "*"], []]
                else:
                    line = gen.choice(r, [["G", ["*", x_ + o1, y_ + o2, "5", "*"], []], ["F", [f_, "read1" + o1, "0", "0", "0", "0", "*"], []]])
                H.model_add(st_, line)
                ops.append(["add", line, False])
                seg = H.new_segment(st_, r, f_, tags=False)
                H.model_add(st_, seg)
                ops.append(["add", seg, False])
                i_ = [j for j, x in enumerate(st_.model.recs) if x.rt == "S" and x.pos[0] == f_][0]
                ops.append(rename_op(st_, r, i_, fresh[0]))
                continue
        pend = sorted(st_.model.undefined_mentions())
        if pend and named and gen.fair(r, 0.08):
            i = gen.choice(r, named)
            if not (version == "gfa1" and st_.model.recs[i].rt in "LC"):
                ops.append(["rename_pending", i, gen.choice(r, pend)])
                continue
        if x < 0.12:
            ops.append(["unused_name"])
        elif x < 0.2 and version == "gfa1" and not st_.model.missing_links() and len(st_.model.segment_names()) >= 1 and gen.chance(r, 0.5):
            # (make that situation: a path over a link nobody declared, to a segment nobody defined)
            a = gen.choice(r, st_.model.segment_names())
            free = [n for n in H.FRESH[16:20] if n not in names and n not in st_.model.undefined_mentions()]
            if "," in a or not free or "zp7" in names:
                continue
            line = ["P", ["zp7", "%s+,%s-" % (a, free[0]), "*"], []]
            H.model_add(st_, line)
            ops.append(["add", line, False])
            if gen.chance(r, 0.6):
                # ... and right away the link that path waits for, with the name of the pending segment as its ID
                ops.append(["collide_add", "L\t%s\t+\t%s\t-\t*\tID:Z:%s" % (a, free[0], free[0]), "cross_type_on_placeholder"])
        elif x < 0.2 and version == "gfa1" and st_.model.missing_links() and names:
            # the link a path is waiting for, carrying an ID which is already in use: by a line, or by a segment
            # that is not defined yet and that other lines mention
            _p, (f, fo, t, to, ov) = st_.model.missing_links()[0]
            pending = sorted(st_.model.undefined_mentions())
            taken = gen.choice(r, pending) if pending and gen.chance(r, 0.5) else gen.choice(r, sorted(names))
            ops.append(["collide_add", "L\t%s\t%s\t%s\t%s\t%s\tID:Z:%s" % (f, fo, t, to, ov, taken), "cross_type_on_placeholder"])
        elif x < 0.23 and st_.model.segment_names():
            # a line that uses its own identifier for one of the lines it mentions (an edge naming itself as
            # segment, a link whose ID is the name of the segment it leaves, a path visiting "itself")
            free = [n for n in H.FRESH[10:16] if n not in names and n not in st_.model.undefined_mentions()]
            if not free:
                continue
            f_, a = gen.choice(r, free), gen.choice(r, st_.model.segment_names())
            if version == "gfa1":
                if "," in a:
                    continue
                text = gen.choice(r, ["L\t%s\t+\t%s\t-\t*\tID:Z:%s" % (f_, a, f_), "C\t%s\t+\t%s\t-\t0\t*\tID:Z:%s" % (a, f_, f_),
                                      "P\t%s\t%s+,%s+\t*" % (f_, a, f_)])
            else:
                text = gen.choice(r, ["E\t%s\t%s+\t%s+\t0\t1\t0\t1\t*" % (f_, a, f_), "G\t%s\t%s-\t%s+\t5\t*" % (f_, f_, a),
                                      "E\t%s\t%s+\t%s-\t0\t1\t0\t1\t*" % (f_, f_, f_)])
            ops.append(["collide_add", text, "self_mention"])
        elif x < 0.27 and version == "gfa2":
            # an item added to / taken from a group through the item-editing methods (by identifier or by line):
            # the mention must follow later renames like any other
            op = H.item_edit(st_, r)
            if op is not None:
                ops.append(op)
        elif x < 0.3 and [x_ for x_ in st_.model.recs if M.name_of(x_) is not None and x_.rt != "S"] and st_.model.segment_names():
            # a line that mentions, where a segment is expected, the identifier of a line of another type; then the
            # segment line with that identifier
            other = M.name_of(gen.choice(r, [x_ for x_ in st_.model.recs if M.name_of(x_) is not None and x_.rt != "S"]))
            a = gen.choice(r, st_.model.segment_names())
            if version == "gfa1":
                if "," in other or "," in a:
                    continue
                text = gen.choice(r, ["L\t%s\t+\t%s\t-\t*" % (a, other), "C\t%s\t+\t%s\t-\t0\t*" % (other, a), "P\tzq8\t%s+,%s+\t*" % (a, other)])
                seg = "S\t%s\t*" % other
            else:
                text = gen.choice(r, ["E\t*\t%s+\t%s+\t0\t1\t0\t1\t*" % (a, other), "G\t*\t%s-\t%s+\t5\t*" % (other, a),
                                      "F\t%s\tread9+\t0\t1\t0\t1\t*" % other])
                seg = "S\t%s\t10\t*" % other
            ops.append(["collide_add", text, "mention_other_type"])
            ops.append(["collide_add", seg, "cross_type"])
        elif x < 0.4 and named:
            # collision attempts
            tgt = st_.model.recs[gen.choice(r, named)]
            mentioned = set(m_[0] for x_ in st_.model.recs for m_ in M.mentions(x_))
            inner = [j for j in named if st_.model.recs[j].rt in "OU" and M.name_of(st_.model.recs[j]) in mentioned]
            if inner and gen.chance(r, 0.3):
                tgt = st_.model.recs[gen.choice(r, inner)]  # a group which is an item of another group
            nm = M.name_of(tgt)
            segs = st_.model.segment_names()
            if not segs:
                continue
            a, b = gen.choice(r, segs), gen.choice(r, segs)
            if gen.chance(r, 0.5):
                if version == "gfa1":
                    cands = [("S", "S\t%s\t*" % nm), ("P", "P\t%s\t%s+\t*" % (nm, a)),
                             ("L", "L\t%s\t+\t%s\t-\t77M\tID:Z:%s" % (a, b, nm)), ("C", "C\t%s\t+\t%s\t-\t0\t*\tID:Z:%s" % (a, b, nm))]
                else:
                    cands = [("S", "S\t%s\t10\t*" % nm), ("E", "E\t%s\t%s+\t%s-\t0\t0\t0\t0\t*" % (nm, a, b)),
                             ("G", "G\t%s\t%s+\t%s-\t5\t*" % (nm, a, b)), ("O", "O\t%s\t%s+" % (nm, a)), ("U", "U\t%s\t%s" % (nm, a))]
                rt, text = gen.choice(r, cands)
                if tgt.rt in "OU" and gen.chance(r, 0.5):
                    rt, text = next(c for c in cands if c[0] == tgt.rt)
                if rt == tgt.rt and rt in "OU":
                    merged.add(id(tgt))
                    ops.append(["collide_add", text, "group_merge_add"])
                    tgt.pos[1] = tgt.pos[1] + " " + text.split("\t")[2]
                else:
                    ops.append(["collide_add", text, "same_type" if rt == tgt.rt else "cross_type"])
            else:
                others = [i for i in named if st_.model.recs[i] is not tgt]
                if not others:
                    continue
                i = gen.choice(r, others)
                src = st_.model.recs[i]
                if version == "gfa1" and "," in nm and src.rt == "S":
                    continue
                if src.rt == tgt.rt and src.rt in "OU":
                    ops.append(["collide_rename", i, nm, "group_rename"])
                    ops.append(["stop"])
                    break
                ops.append(["collide_rename", i, nm, "rename_same_type" if src.rt == tgt.rt else "rename_cross_type"])
        elif x < 0.6 and named:
            mentioned = set(m_[0] for x_ in st_.model.recs for m_ in M.mentions(x_))
            pref = [j for j in named if M.name_of(st_.model.recs[j]) in mentioned]
            i = gen.choice(r, pref) if pref and gen.chance(r, 0.7) else gen.choice(r, named)
            cont = [j for j in pref if id(st_.model.recs[j]) in merged]
            if cont and gen.chance(r, 0.5):
                i = gen.choice(r, cont)  # a mentioned group which was defined in several lines
            rec = st_.model.recs[i]
            pool = [n for n in INT_NAMES + H.FRESH[:6] + H.POOL.get(rec.rt if rec.rt in H.POOL else "S", []) if n not in names
                    and n not in st_.model.undefined_mentions()]
            if rec.rt in ("E", "G", "O", "U") and gen.chance(r, 0.3) and \
                    not any(m_[0] == M.name_of(rec) for x in st_.model.recs for m_ in M.mentions(x)):
                pool = ["*"]  # the placeholder: the line becomes unnamed
            if not pool:
                continue
            ops.append(rename_op(st_, r, i, gen.choice(r, pool)))
        elif x < 0.63 and version == "gfa2" and any(
                rec.rt in "EGOU" and M.name_of(rec) is not None and any(m_[0] == M.name_of(rec) for x_ in st_.model.recs for m_ in M.mentions(x_))
                for rec in st_.model.recs):
            cands = [j for j, rec in enumerate(st_.model.recs) if rec.rt in "EGOU" and M.name_of(rec) is not None and
                     any(m_[0] == M.name_of(rec) for x_ in st_.model.recs for m_ in M.mentions(x_))]
            ops.append(["unname_mentioned", gen.choice(r, cands)])
        elif x < 0.67 and x >= 0.64 and version == "gfa1" and any(rec.rt in "LC" and not rec.tag("ID") for rec in st_.model.recs):
            i = gen.choice(r, [j for j, rec in enumerate(st_.model.recs) if rec.rt in "LC" and not rec.tag("ID")])
            rec = st_.model.recs[i]
            how = gen.choice(r, ["set", "set", "attr"])
            if names and gen.chance(r, 0.4):
                ops.append(["collide_give_id", i, gen.choice(r, sorted(names)), how, "give_id_in_use"])
            else:
                pool = [n for n in INT_NAMES + H.FRESH[:6] if n not in names and n not in st_.model.undefined_mentions()]
                if not pool:
                    continue
                new = gen.choice(r, pool)
                rec.tags = list(rec.tags) + [("ID", "Z", new)]
                ops.append(["give_id", i, new, how])
        elif x < 0.64 and version == "gfa1" and any(rec.rt in "LC" and rec.tag("ID") for rec in st_.model.recs):
            i = gen.choice(r, [j for j, rec in enumerate(st_.model.recs) if rec.rt in "LC" and rec.tag("ID")])
            rec = st_.model.recs[i]
            rec.tags = [t for t in rec.tags if t[0] != "ID"]
            ops.append(["drop_id", i, gen.choice(r, ["delete", "set_none"])])
        elif x < 0.7:
            rem = H.removable(st_)
            if rem:
                i = gen.choice(r, rem)
                rec = st_.model.recs[i]
                ops.append(["rm_i", i])
                st_.model.remove(rec)
        else:
            line = H.new_record(st_, r)
            if line is None:
                continue
            # integer-looking identifiers drive unused_name()
            if line[0] in "SEGOU" and gen.chance(r, 0.3):
                free = [n for n in INT_NAMES if n not in names and n not in st_.model.undefined_mentions()]
                if free and (line[0] == "S" or line[1][0] != "*"):
                    line[1][0] = gen.choice(r, free)
                    if line[0] == "S":
                        st_.slen[line[1][0]] = int(line[1][1]) if version == "gfa2" else st_.slen.get(line[1][0], 8)
            rec_ = H.model_add(st_, line)
            if line[0] in "OU" and rec_.pos[1] != line[1][1]:
                merged.add(id(rec_))
            ops.append(["add", line, False])
    ops = [o for o in ops if o[0] != "stop"]
    if version == "gfa1" and gen.chance(r, 0.3):
        ops.append(["convert"])
    return {"version": version, "vlevel": gen.choice(r, [1, 1, 2, 3]), "ops": ops}


def st_case(version):
    @st.composite
    def s(draw):
        r = draw(st.randoms(use_true_random=False))
        return gen_case(r, version)
    return s()


def parts(tier):
    n = 220 if tier == "quick" else 800
    return [Part("gfa1", prop, strategy=st_case("gfa1"), n=n, quick_shards=2),
            Part("gfa2", prop, strategy=st_case("gfa2"), n=n, quick_shards=2)]
