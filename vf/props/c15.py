"""C15 Segment multiplication makes faithful copies and splits the counts."""
from collections import Counter

from hypothesis import strategies as st

from .. import gen, grammar as G, model as M, observe as O
from ..env import gfapy, GfapyError
from ..runner import Part, Violation

ID = "C15"
ATHERIS = ['gfa1', 'copy-numbers']  # parts also driven by libFuzzer in the thorough tier (vf/runner.py: all_parts)
RULE = ("part 'gfa2': GFA2 graphs with named and anonymous E lines of every kind (dovetail, containment, internal) "
        "with count tags, gaps / fragments / sets as bystanders, without link distribution: copies of segments and "
        "of every incident edge, floor-divided counts, unique edge identifiers. part 'gfa1': GFA1 graphs (segments with sequence/LN, custom and count tags RC/FC/KC; links on both ends incl. parallel "
        "links with different overlaps and asymmetric CIGARs, containments in both roles, count tags on edges; "
        "self-links as a separately labelled class; bystander segments, links, containments and paths) x target "
        "segment x factor -1..4 x distribute in {None, off, auto, equal, L, R} x copy names {automatic, given, "
        "original already ending in *n} x origin options {none, track_origin, extended, custom origin_tag, segment "
        "with an origin tag of its own}; 30% of the graphs have a crowded end (3..7 further links incl. parallel "
        "ones on one end of the segment). Oracle from the statement: k segments with fresh distinct (or the "
        "requested) names, identical sequence/tags with counts floor-divided on the segment and its edges, every "
        "copy carrying a copy of every dovetail and containment; with distribution on an end: no link invented, "
        "every former neighbour end still linked to >= 1 copy, every copy keeps >= 1 link if there were >= k, the "
        "other end untouched; with origin tracking the copies carry the origin (tags otherwise identical); "
        "factor 1 = identity under every option, factor 0 = removal cascade of the model, negative factor = "
        "ArgumentError with unchanged state; everything not incident to the segment unchanged; closure/symmetry "
        "invariants. part 'copy-numbers': apply_copy_numbers() on graphs whose segments carry a copy-number tag 0..3 "
        "(default or other tag name, default or other origin tag): the number of segments descending from each input "
        "segment equals its copy number, each is a faithful copy (counts divided), every link joins copies of segments "
        "that were linked like this with the counts divided by the product of the copy numbers, every input link "
        "between surviving segments keeps >= 1 copy, containments are copied cn(a) x cn(b) times, edge identifiers stay unique. "
        "non-trivial = factor >= 2 and the segment has >= 2 links on one end or a containment (copy-numbers: >= 2 segments "
        "multiplied and a link between two multiplied segments)")
ASSUMPTIONS = [
    "for the policies auto/equal the statement does not say which end is chosen: the result must be consistent with distribution on L, on R or on no end",
    "for a segment with a self-link the statement does not fix which copy the other side goes to: only 'no foreign exception, invariants, faithful segment copies, bystanders unchanged' is demanded",
    "requested copy names are fresh (clashing names are not exercised); paths never run through the multiplied segment",
]
INV = {"+": "-", "-": "+"}
COUNT = ("RC", "FC", "KC")


def tagkey(tags, factor=None):
    out = []
    for n, t, v in tags:
        cv = G.canon_tag_value(t, v)
        if factor and n in COUNT and t == "i":
            cv = cv // factor
        out.append((n, t, cv))
    return tuple(sorted(out, key=repr))


def linkkey(pos, tags, factor=None):
    c = G.canon_rec(G.Rec("L", pos, [], "gfa1"))
    return ("L", G.link_key(c), tagkey([t for t in tags if t[0] != "ID"], factor))


def contkey(pos, tags, factor=None):
    c = G.canon_rec(G.Rec("C", pos, [], "gfa1"))
    return ("C", c[1], tagkey([t for t in tags if t[0] != "ID"], factor))


def ends_of(pos):
    f, fo, t, to = pos[:4]
    return (f, "R" if fo == "+" else "L"), (t, "L" if to == "+" else "R")


def check_edge_ids(g, recs, ctx, keep=True):
    """Identifiers of edges stay unique; without link distribution the original edges keep theirs."""
    ids = [str(x.get("ID")) for x in g.dovetails + g.containments if x.get("ID") is not None]
    if len(ids) != len(set(ids)):
        raise Violation("edge-ids", "%s\nedge identifiers are not unique after multiplication: %s" % (ctx, sorted(ids)))
    want = sorted(r.tag("ID")[1] for r in recs if r.rt in "LC" and r.tag("ID"))
    if keep and not set(want) <= set(ids):
        raise Violation("edge-ids", "%s\noriginal edge identifiers lost: %s vs %s" % (ctx, want, sorted(ids)))


def observed(g):
    segs = {}
    for s in g.segments:
        rec = G.split_line(O.line_text(s), "gfa1")
        segs[rec.pos[0]] = rec
    links = Counter()
    link_list = []
    for l in g.dovetails:
        if l.virtual:
            continue  # a placeholder for a link some path requires: not a declared link
        rec = G.split_line(O.line_text(l), "gfa1")
        links[linkkey(rec.pos, rec.tags)] += 1
        link_list.append(rec)
    conts = Counter()
    for c in g.containments:
        rec = G.split_line(O.line_text(c), "gfa1")
        conts[contkey(rec.pos, rec.tags)] += 1
    paths = Counter(O.line_key(p, "gfa1") for p in g.paths)
    return segs, links, conts, paths, link_list


def prop(case):
    doc, target, factor, distribute, names_opt = case["doc"], case["segment"], case["factor"], case["distribute"], case["copy_names"]
    lines = gen.doc_lines(doc)
    text = "\n".join(lines)
    model = M.ModelDoc.from_doc(doc)
    recs = model.recs
    try:
        if case.get("incremental"):
            g = gfapy.Gfa(version="gfa1", vlevel=case.get("vlevel", 1))
            for l_ in lines:
                g.add_line(l_)
        else:
            g = gfapy.Gfa(lines, version="gfa1", vlevel=case.get("vlevel", 1))
    except Exception as e:
        raise Violation("load", "valid graph not loaded: %s: %s\n%s" % (type(e).__name__, str(e)[:300], text), type(e).__name__)
    kw = {}
    if distribute is not None:
        kw["distribute"] = distribute
    if names_opt is not None:
        kw["copy_names"] = list(names_opt)
    origin = case.get("origin") or {}
    kw.update(origin)
    tracked = bool(origin.get("track_origin") or origin.get("extended"))
    otag = origin.get("origin_tag", "or")
    if origin.get("extended") and distribute is None:
        distribute = "auto"
    arg = g.segment(target) if case.get("by_instance") else target
    before = O.observe(g)
    btext = str(g)
    self_link = any(r.rt in "LC" and r.pos[0] == target and r.pos[2] == target for r in recs)
    ctx = "multiply(%r, %d, %r)\n%s" % (target, factor, kw, text)
    try:
        g.multiply(arg, factor, **kw)
        raised = None
    except Exception as e:
        raised = e
    if factor < 0:
        if not isinstance(raised, gfapy.ArgumentError):
            raise Violation("negative-accepted", "%s\nnegative factor: %r" % (ctx, raised))
        if O.observe(g) != before or str(g) != btext:
            raise Violation("negative-changed", "%s\nrefused call changed the graph:\n%s" % (ctx, str(g)))
        return {"nt": False, "factor": factor}
    if distribute not in (None, "off", "auto", "equal", "L", "R"):
        # not one of the documented policies: a call that is refused leaves the graph as it was
        if raised is None:
            return {"nt": False, "unknown_policy": "accepted"}
        if not isinstance(raised, GfapyError):
            raise Violation("raised", "%s\nraised %s: %s" % (ctx, type(raised).__name__, str(raised)[:300]), "foreign/%s/policy" % type(raised).__name__)
        if O.observe(g) != before or str(g) != btext:
            raise Violation("refused-changed", "%s\nthe call was refused (%s) but the graph changed:\n%s" % (ctx, type(raised).__name__, str(g)), "policy")
        return {"nt": False, "unknown_policy": "refused"}
    bad = case.get("bad_names")
    if bad and factor >= 2 and raised is not None:
        # the requested names cannot be given (in use, repeated, not factor - 1 of them): the call is
        # refused, and a refused call leaves the graph as it was
        if not isinstance(raised, GfapyError):
            raise Violation("raised", "%s\nraised %s: %s" % (ctx, type(raised).__name__, str(raised)[:300]), "foreign/%s/names" % type(raised).__name__)
        if O.observe(g) != before or str(g) != btext:
            raise Violation("refused-changed", "%s\nthe call was refused (%s) but the graph changed:\n%s" % (ctx, type(raised).__name__, str(g)), "names/" + bad)
        return {"nt": False, "bad_names": bad}
    if raised is not None:
        cls = "gfapy" if isinstance(raised, GfapyError) else "foreign"
        raise Violation("raised", "%s\nraised %s: %s" % (ctx, type(raised).__name__, str(raised)[:300]),
                        "%s/%s/%s" % (cls, type(raised).__name__, "self-link" if self_link else "-"))
    after_text = str(g)
    ctx += "\n-- after --\n" + after_text
    probs = O.invariants(g)
    if probs:
        raise Violation("invariant", "%s\n%s" % (ctx, probs[:4]))
    if factor == 1:
        if O.observe(g) != before or after_text != btext:
            raise Violation("factor1", "%s\nfactor 1 changed the graph" % ctx)
        return {"nt": False, "factor": 1}
    if factor == 0:
        model.remove(model.by_name(target))
        got = G.canon_doc(after_text, "gfa1")
        want = G.canon_doc(model.text(), "gfa1")
        if got != want:
            raise Violation("factor0", "%s\nfactor 0 is not the removal of the segment: %s" % (ctx, G.counter_diff(want, got)))
        return {"nt": False, "factor": 0}
    segs, links, conts, paths, link_list = observed(g)
    check_edge_ids(g, recs, ctx, keep=distribute in (None, "off"))
    src = {r.pos[0]: r for r in recs if r.rt == "S"}
    new = sorted(set(segs) - set(src))
    if len(new) != factor - 1 or set(src) - set(segs):
        raise Violation("n-copies", "%s\nexpected %d new segment(s), got %s" % (ctx, factor - 1, new))
    if names_opt is not None and sorted(new) != sorted(names_opt):
        raise Violation("copy-names", "%s\nrequested names %s, got %s" % (ctx, names_opt, new))
    copies = [target] + new
    t = src[target]
    for c in copies:
        r = segs[c]
        rtags = list(r.tags)
        if tracked:
            # the copies (gfapy: the original too) name where they come from: the original's
            # own origin tag if it has one, else its name
            have = t.tag(otag)
            want_o = have[1] if have else target
            got_o = r.tag(otag)
            if c != target and (got_o is None or got_o[1] != want_o):
                raise Violation("origin", "%s\ncopy %s: origin tag %s is %r, expected %r" % (ctx, c, otag, got_o, want_o))
            if not have:
                rtags = [x for x in rtags if x[0] != otag]
        if r.pos[1] != t.pos[1] or tagkey(rtags) != tagkey(t.tags, factor):
            raise Violation("copy-differs", "%s\nsegment %s is not a faithful copy: %r vs original %r (counts / %d)" % (ctx, c, r.text(), t.text(), factor))
    for s in src:
        if s != target and G.canon_rec(segs[s]) != G.canon_rec(src[s]):
            raise Violation("bystander", "%s\nsegment %s changed" % (ctx, s))
    # (a path through the multiplied segment is not "the rest of the graph": when its link is
    # handed to a copy by the distribution it goes away with it)
    def through(key):
        return any(M.split_oriented(x)[0] in copies for x in key[1][1])
    want_paths = Counter(G.canon_rec(r) for r in recs if r.rt == "P")
    want_by = Counter({k: v for k, v in want_paths.items() if not through(k)})
    got_by = Counter({k: v for k, v in paths.items() if not through(k)})
    if got_by != want_by or (paths - want_paths):
        raise Violation("bystander", "%s\npaths changed" % ctx)
    if self_link:
        # reduced oracle
        by_l = Counter(linkkey(r.pos, r.tags) for r in recs if r.rt == "L" and target not in (r.pos[0], r.pos[2]))
        got_by = Counter({k: v for k, v in links.items() if not any(c in (k[1][0], k[1][2]) for c in copies)})
        if by_l != got_by:
            raise Violation("bystander", "%s\nlinks not incident to the segment changed" % ctx)
        # wherever the copies of the segment's edges end up, their counts are divided by k exactly once
        src_by_marker = {r.tag("xx")[1]: r for r in recs if r.rt == "L" and r.tag("xx") and target in (r.pos[0], r.pos[2])}
        for r in link_list:
            mk = r.tag("xx")
            if mk and mk[1] in src_by_marker and (r.pos[0] in copies or r.pos[2] in copies):
                want_t = tagkey([t for t in src_by_marker[mk[1]].tags if t[0] != "ID"], factor)
                if tagkey([t for t in r.tags if t[0] != "ID"]) != want_t:
                    raise Violation("self-link-counts", "%s\nlink %r: tags/counts %s, expected those of %r with the counts divided by %d once: %s" % (
                        ctx, r.text(), tagkey(r.tags), src_by_marker[mk[1]].text(), factor, want_t), "counts")
        return {"nt": False, "factor": factor, "self_link": True}

    def sub(pos, c):
        p = list(pos)
        if p[0] == target:
            p[0] = c
        if p[2] == target:
            p[2] = c
        return p
    # containments: always full copies
    want_c = Counter()
    for r in recs:
        if r.rt == "C":
            if target in (r.pos[0], r.pos[2]):
                for c in copies:
                    want_c[contkey(sub(r.pos, c), r.tags, factor)] += 1
            else:
                want_c[contkey(r.pos, r.tags)] += 1
    if conts != want_c:
        raise Violation("containments", "%s\ncontainments differ: %s" % (ctx, G.counter_diff(want_c, conts)))
    # links
    want_l = Counter()
    per_end = {"L": Counter(), "R": Counter()}  # expected links at (copy, end), undistributed
    other_ends = {"L": [], "R": []}
    for r in recs:
        if r.rt != "L":
            continue
        if target in (r.pos[0], r.pos[2]):
            a, b = ends_of(r.pos)
            end = a[1] if a[0] == target else b[1]
            oth = b if a[0] == target else a
            other_ends[end].append((oth, G.canon_alignment(r.pos[4])))
            for c in copies:
                k = linkkey(sub(r.pos, c), r.tags, factor)
                want_l[k] += 1
                per_end[end][(c, k)] += 1
        else:
            want_l[linkkey(r.pos, r.tags)] += 1
    policies = {None: [None], "off": [None], "L": ["L"], "R": ["R"], "auto": [None, "L", "R"], "equal": [None, "L", "R"]}[distribute]
    errors = []
    for E in policies:
        if E is None:
            if links == want_l:
                errors = []
                break
            errors.append("no distribution: %s" % G.counter_diff(want_l, links))
            continue
        # everything which is not at end E of a copy must be exactly as undistributed
        exp_e = Counter()
        for (c, k), n in per_end[E].items():
            exp_e[k] += n
        rest_want = want_l - exp_e
        got_e = links - rest_want
        rest_got = links - got_e
        if rest_got != rest_want:
            errors.append("distribution on %s: links elsewhere differ: %s" % (E, G.counter_diff(rest_want, rest_got)))
            continue
        if got_e - exp_e:
            errors.append("distribution on %s: link(s) invented: %s" % (E, list((got_e - exp_e).elements())[:3]))
            continue
        # coverage: every former neighbour end keeps >= 1 link to some copy
        ok = True
        for oth, ov in other_ends[E]:
            found = False
            for r in link_list:
                a, b = ends_of(r.pos)
                for x, y in ((a, b), (b, a)):
                    if x[0] in copies and x[1] == E and y == oth:
                        found = True
            if not found:
                ok = False
                errors.append("distribution on %s: former neighbour end %s lost all its links" % (E, oth))
                break
        if not ok:
            continue
        if len(other_ends[E]) >= factor:
            lonely = [c for c in copies if not any(
                (x[0] == c and x[1] == E) for r in link_list for x in ends_of(r.pos))]
            if lonely:
                errors.append("distribution on %s: copies %s have no link although there were %d >= %d" % (E, lonely, len(other_ends[E]), factor))
                continue
        errors = []
        break
    if errors:
        raise Violation("links", "%s\n%s" % (ctx, "\n".join(errors[:3])), "distribute=%s" % distribute)
    nt = max(len(other_ends["L"]), len(other_ends["R"])) >= 2 or any(r.rt == "C" and target in (r.pos[0], r.pos[2]) for r in recs)
    return {"nt": nt, "factor": factor, "distribute": str(distribute), "names": "given" if names_opt else "auto"}


def build(r):
    n = r.randint(2, 5)
    names = ["A", "B", "C", "D", "E"][:n]
    if gen.chance(r, 0.25):
        names[0] = gen.choice(r, ["A*2", "A*3"])
    lines = []
    for s in names:
        tags = gen.gen_tags(r, "gfa1", "S", True, maxn=1)
        tags = [t for t in tags if t[0] not in COUNT]
        for ct in COUNT:
            if gen.chance(r, 0.4):
                tags.append([ct, "i", str(r.randint(0, 1000)) if not gen.fair(r, 0.12) else
                             str(gen.choice(r, [2 ** 53 + 1, 10 ** 17 + 3, 2 ** 63 - 1, 3 * 10 ** 16 + 1, 99999999999999999]))])
        k = r.randint(2, 8)
        if gen.chance(r, 0.6):
            seq = gen.gen_sequence(r, k)
        else:
            seq = "*"
            tags.append(["LN", "i", str(k)])
        lines.append(["S", [s, seq], tags])
    target = names[0] if gen.chance(r, 0.7) else gen.choice(r, names)
    have = {}
    links = []

    def add(f, fo, t, to):
        ek = M.ends_key(f, fo, t, to)
        ov = "*" if gen.chance(r, 0.3) else gen.gen_cigar(r, "MID", maxops=3)
        if ek in have and ("*" in have[ek] or ov == "*"):
            return
        if any(G.canon_cigar(ov) == G.canon_cigar(x) or G.canon_cigar(M.complement_cigar(ov)) == G.canon_cigar(x) for x in have.get(ek, []) if x != "*"):
            return
        have.setdefault(ek, []).append(ov)
        tags = []
        for ct in COUNT:
            if gen.chance(r, 0.35):
                tags.append([ct, "i", str(r.randint(0, 500)) if not gen.fair(r, 0.1) else str(gen.choice(r, [2 ** 53 + 1, 10 ** 17 + 3, 2 ** 62 + 5]))])
        tags.append(["xx", "Z", "t%d" % len(links)])  # unique marker: identifies the source of a copied link
        if gen.chance(r, 0.3):
            tags.append(["ID", "Z", "id%d" % len(links)])
        links.append(["L", [f, fo, t, to, ov], tags])

    others = [x for x in names if x != target] or names
    if gen.chance(r, 0.3):
        # a crowded end: many links, also parallel ones, on one end of the segment
        for _ in range(r.randint(3, 7)):
            o = gen.choice(r, others)
            if gen.chance(r, 0.5):
                add(target, "+", o, gen.choice(r, "+-"))
            else:
                add(o, gen.choice(r, "+-"), target, "-")
    for _ in range(r.randint(1, 6)):
        o = gen.choice(r, others)
        if gen.chance(r, 0.5):
            add(target, gen.choice(r, "+-"), o, gen.choice(r, "+-"))
        else:
            add(o, gen.choice(r, "+-"), target, gen.choice(r, "+-"))
    for _ in range(r.randint(0, 3)):
        add(gen.choice(r, others), gen.choice(r, "+-"), gen.choice(r, others), gen.choice(r, "+-"))
    if gen.chance(r, 0.12):
        add(target, gen.choice(r, "+-"), target, gen.choice(r, "+-"))
    lines += links
    for _ in range(r.randint(0, 2)):
        a, b = (target, gen.choice(r, others)) if gen.chance(r, 0.5) else (gen.choice(r, others), target)
        if gen.chance(r, 0.3):
            a, b = gen.choice(r, others), gen.choice(r, others)
        tags = [["ID", "Z", "cid%d" % len(lines)]] if gen.chance(r, 0.3) else []
        lines.append(["C", [a, gen.choice(r, "+-"), b, gen.choice(r, "+-"), str(r.randint(0, 3)), gen.choice(r, ["*", "2M"])], tags])
        if not tags and gen.fair(r, 0.15):
            # the same containment once more (identical C lines are two containments), with a count to divide
            lines[-1][2] = [["KC", "i", str(r.randint(2, 40))]] if gen.chance(r, 0.5) else []
            lines.append(["C", list(lines[-1][1]), [list(t) for t in lines[-1][2]]])
    # a bystander path over links that do not touch the target
    by = [l for l in links if target not in (l[1][0], l[1][2])]
    if by and gen.chance(r, 0.4):
        p = by[0][1]
        lines.append(["P", ["pp", "%s%s,%s%s" % (p[0], p[1], p[2], p[3]), p[4]], []])
    return {"version": "gfa1", "lines": lines}, target


@st.composite
def st_case(draw):
    r = draw(st.randoms(use_true_random=False))
    doc, target = build(r)
    incremental = False
    if gen.chance(r, 0.15):
        # a path that requires a link nobody declared: the segment carries a placeholder link
        # (only possible in a Gfa that is built line by line)
        others = [l[1][0] for l in doc["lines"] if l[0] == "S" and l[1][0] != target]
        if others:
            o = gen.choice(r, others)
            fo, to = gen.choice(r, "+-"), gen.choice(r, "+-")
            declared = set(M.ends_key(*l[1][:4]) for l in doc["lines"] if l[0] == "L")
            if M.ends_key(target, fo, o, to) not in declared:
                doc["lines"].append(["P", ["pv", "%s%s,%s%s" % (target, fo, o, to), "*"], []])
                incremental = True
    factor = gen.choice(r, [-1, 0, 1, 2, 2, 2, 3, 3, 4])
    names = None
    if factor >= 2 and gen.chance(r, 0.3):
        names = ["cp%d" % i for i in range(factor - 1)]
    bad = None
    if factor >= 2 and gen.fair(r, 0.08):
        names = ["cp%d" % i for i in range(factor - 1)]
        segs_ = [l[1][0] for l in doc["lines"] if l[0] == "S"]
        paths_ = [l[1][0] for l in doc["lines"] if l[0] == "P"]
        bad = gen.choice(r, ["in_use", "in_use", "in_use_path", "repeated", "short", "long"])
        if bad == "in_use":
            names[r.randrange(len(names))] = gen.choice(r, segs_)
        elif bad == "in_use_path" and paths_:
            names[r.randrange(len(names))] = gen.choice(r, paths_)
        elif bad == "repeated" and factor >= 3:
            names[-1] = names[0]
        elif bad == "short":
            names = names[:-1]
        elif bad == "long":
            names = names + ["cpx"]
        else:
            bad = None
    origin = None
    if gen.chance(r, 0.3):
        origin = gen.choice(r, [{"track_origin": True}, {"extended": True}, {"track_origin": True, "origin_tag": "og"},
                                {"extended": True, "origin_tag": "og"}])
        if gen.chance(r, 0.3):
            # the segment has an origin of its own already
            for l in doc["lines"]:
                if l[0] == "S" and l[1][0] == target and not any(t[0] == origin.get("origin_tag", "or") for t in l[2]):
                    l[2].append([origin.get("origin_tag", "or"), "Z", "Q"])
    return {"doc": doc, "segment": target, "factor": factor, "origin": origin, "incremental": incremental,
            "distribute": gen.choice(r, [None, None, "off", "auto", "equal", "L", "R"]) if not gen.fair(r, 0.04) else gen.choice(r, ["zzz", "l", "both"]),
            "copy_names": names, "bad_names": bad,
            "by_instance": gen.chance(r, 0.3), "vlevel": gen.choice(r, [1, 1, 2, 3])}


# ---------------------------------------------------------------- GFA2

def ekey(pos, tags, factor=None):
    rec = G.Rec("E", ["*"] + list(pos[1:]), [], "gfa2")
    return ("E", G.canon_rec(rec)[1], tagkey(tags, factor))


def prop2(case):
    doc, target, factor = case["doc"], case["segment"], case["factor"]
    lines = gen.doc_lines(doc)
    text = "\n".join(lines)
    recs = [G.Rec.from_plain(l, "gfa2") for l in doc["lines"]]
    try:
        if case.get("incremental"):
            g = gfapy.Gfa(version="gfa2", vlevel=case.get("vlevel", 1))
            for l_ in lines:
                g.add_line(l_)
        else:
            g = gfapy.Gfa(lines, version="gfa2", vlevel=case.get("vlevel", 1))
    except Exception as e:
        raise Violation("load", "valid graph not loaded: %s: %s\n%s" % (type(e).__name__, str(e)[:300], text), type(e).__name__)
    pending = M.ModelDoc("gfa2", recs).undefined_mentions()
    ctx = "multiply(%r, %d) [GFA2]\n%s" % (target, factor, text)
    before = O.observe(g)
    try:
        g.multiply(target, factor)
        raised = None
    except Exception as e:
        raised = e
    if factor < 0:
        if not isinstance(raised, gfapy.ArgumentError) or O.observe(g) != before:
            raise Violation("negative", "%s\nnegative factor: %r / state changed: %s" % (ctx, raised, O.observe(g) != before))
        return {"nt": False}
    if raised is not None:
        raise Violation("raised", "%s\nraised %s: %s" % (ctx, type(raised).__name__, str(raised)[:300]),
                        "%s/gfa2" % type(raised).__name__)
    after_text = "\n".join(x for x in str(g).split("\n") if not x.startswith("?record_type?"))  # (placeholders of pending identifiers)
    ctx += "\n-- after --\n" + after_text
    probs = O.invariants(g)
    if probs:
        raise Violation("invariant", "%s\n%s" % (ctx, probs[:4]))
    if factor == 1:
        if O.observe(g) != before:
            raise Violation("factor1", "%s\nfactor 1 changed the graph" % ctx)
        return {"nt": False}
    if factor == 0:
        m = M.ModelDoc("gfa2", recs)
        m.remove(m.by_name(target))
        if G.canon_doc(after_text, "gfa2") != G.canon_doc(m.text(), "gfa2"):
            raise Violation("factor0", "%s\nfactor 0 is not the removal of the segment" % ctx)
        return {"nt": False}
    out = [G.split_line(x, "gfa2") for x in after_text.split("\n") if x]
    segs = {r.pos[0]: r for r in out if r.rt == "S"}
    src = {r.pos[0]: r for r in recs if r.rt == "S"}
    new = sorted(set(segs) - set(src))
    if len(new) != factor - 1:
        raise Violation("n-copies", "%s\nexpected %d copies, got %s" % (ctx, factor - 1, new))
    if set(new) & pending:
        raise Violation("copy-name-not-fresh", "%s\nthe copy got the identifier %s, which another line already mentions (a line that is still to be defined)" % (
            ctx, sorted(set(new) & pending)))
    copies = [target] + new
    t = src[target]
    for c in copies:
        r = segs[c]
        if r.pos[1:] != t.pos[1:] or tagkey(r.tags) != tagkey(t.tags, factor):
            raise Violation("copy-differs", "%s\nsegment %s is not a faithful copy" % (ctx, c))
    self_edge = any(r.rt == "E" and r.pos[1][:-1] == target and r.pos[2][:-1] == target for r in recs)
    want = Counter()
    for r in recs:
        if r.rt != "E":
            continue
        a, b = r.pos[1][:-1], r.pos[2][:-1]
        if target in (a, b) and M.classify_edge(r)[0] in "LC":
            if a == b:
                continue
            for c in copies:
                p = list(r.pos)
                p[1] = (c if a == target else a) + r.pos[1][-1]
                p[2] = (c if b == target else b) + r.pos[2][-1]
                want[ekey(p, r.tags, factor)] += 1
        elif not (a == target and b == target):
            want[ekey(r.pos, r.tags)] += 1
    got = Counter()
    for r in out:
        if r.rt == "E":
            a, b = r.pos[1][:-1], r.pos[2][:-1]
            if a in copies and b in copies:
                continue  # copies of self-edges: where the other side goes is not specified
            got[ekey(r.pos, r.tags)] += 1
    if got != want:
        raise Violation("edges", "%s\nE lines differ: %s" % (ctx, G.counter_diff(want, got)), "self" if self_edge else "-")
    eids = [r.pos[0] for r in out if r.rt == "E" and r.pos[0] != "*"]
    if len(eids) != len(set(eids)) or not set(r.pos[0] for r in recs if r.rt == "E" and r.pos[0] != "*") <= set(eids):
        raise Violation("edge-ids", "%s\nedge identifiers not unique or lost: %s" % (ctx, eids))
    other = Counter(G.canon_rec(r) for r in recs if r.rt in "GFOU#")
    other_got = Counter(G.canon_rec(r) for r in out if r.rt in "GFOU#")
    if other != other_got:
        raise Violation("bystander", "%s\ngaps / fragments / groups changed: %s" % (ctx, G.counter_diff(other, other_got)))
    n_inc = sum(1 for r in recs if r.rt == "E" and target in (r.pos[1][:-1], r.pos[2][:-1]))
    return {"nt": n_inc >= 2, "factor": factor, "gfa2": True}


@st.composite
def st_case2(draw):
    r = draw(st.randoms(use_true_random=False))
    n = r.randint(2, 4)
    names = ["A", "B", "C", "D"][:n]
    lines = []
    for s_ in names:
        tags = []
        for ct in COUNT:
            if gen.chance(r, 0.4):
                tags.append([ct, "i", str(r.randint(0, 1000))])
        lines.append(["S", [s_, "10", "*" if gen.chance(r, 0.5) else gen.gen_sequence(r, 10)], tags])
    target = names[0]
    k = 0
    for _ in range(r.randint(1, 6)):
        a, b = (target, gen.choice(r, names)) if gen.chance(r, 0.5) else (gen.choice(r, names), target)
        if gen.chance(r, 0.25):
            a, b = gen.choice(r, names), gen.choice(r, names)
        if a == b and gen.chance(r, 0.7):
            continue
        b1, e1, _k = gen.interval(r, 10)
        b2, e2, _k = gen.interval(r, 10)
        tags = [["xx", "Z", "t%d" % k]]
        for ct in COUNT:
            if gen.chance(r, 0.3):
                tags.append([ct, "i", str(r.randint(0, 500))])
        eid = "e%d" % k if gen.chance(r, 0.5) else "*"
        k += 1
        lines.append(["E", [eid, a + gen.choice(r, "+-"), b + gen.choice(r, "+-"), b1, e1, b2, e2, gen.gen_alignment_gfa2(r)], tags])
    if gen.chance(r, 0.4) and len(names) > 1:
        lines.append(["G", ["*", names[1] + "+", names[-1] + "-", "5", "*"], []])
    if gen.chance(r, 0.3) and len(names) > 1:
        lines.append(["F", [names[1], "read+", "0", "2", "0", "2", "*"], []])
    if gen.chance(r, 0.3) and len(names) > 1:
        lines.append(["U", ["u1", names[1]], []])
    incremental = False
    if gen.fair(r, 0.15):
        # a group that mentions an identifier nobody defines yet - the one the first automatic copy name would be
        lines.append([gen.choice(r, "UO"), ["uq", "%s*2%s" % (target, "")], []])
        if lines[-1][0] == "O":
            lines[-1][1][1] += "+"
        incremental = True
    return {"doc": {"version": "gfa2", "lines": lines}, "segment": target, "factor": gen.choice(r, [-1, 0, 1, 2, 2, 3, 4]),
            "vlevel": gen.choice(r, [1, 1, 2, 3]), "incremental": incremental}


# ---------------------------------------------------------------- apply_copy_numbers

def prop_cn(case):
    """apply_copy_numbers(): every segment multiplied by the copy number in its tag (documented: multiply() with
    distribute='auto' and origin tracking for each segment).  Consequences of the statement applied segment by
    segment (validity predicate, no particular end choice or copy name demanded)."""
    doc, ctag = case["doc"], case["count_tag"]
    lines = gen.doc_lines(doc)
    text = "\n".join(lines)
    recs = [G.Rec.from_plain(l, "gfa1") for l in doc["lines"]]
    try:
        g = gfapy.Gfa(lines, version="gfa1", vlevel=case.get("vlevel", 1))
    except Exception as e:
        raise Violation("load", "valid graph not loaded: %s: %s\n%s" % (type(e).__name__, str(e)[:300], text), type(e).__name__)
    kw = {} if ctag == "cn" else {"count_tag": ctag}
    if case.get("origin_tag"):
        kw["origin_tag"] = case["origin_tag"]
    otag = case.get("origin_tag") or "or"
    ctx = "apply_copy_numbers(%r)\n%s" % (kw, text)
    try:
        g.apply_copy_numbers(**kw)
    except Exception as e:
        raise Violation("cn-raised", "%s\nraised %s: %s" % (ctx, type(e).__name__, str(e)[:300]), type(e).__name__)
    ctx += "\n-- after --\n" + str(g)
    probs = O.invariants(g)
    if probs:
        raise Violation("cn-invariant", "%s\n%s" % (ctx, probs[:4]))
    segs, links, conts, paths, link_list = observed(g)
    src = {r.pos[0]: r for r in recs if r.rt == "S"}
    cn = {n: int(r.tag(ctag)[1]) for n, r in src.items()}
    origin = {}
    for n, r in segs.items():
        o = r.tag(otag)
        origin[n] = o[1] if o else n
        if origin[n] not in src:
            raise Violation("cn-origin", "%s\nsegment %s names the origin %r, which is not a segment of the input" % (ctx, n, origin[n]))
    per = Counter(origin.values())
    for n, k in cn.items():
        if per.get(n, 0) != k:
            raise Violation("cn-count", "%s\nsegment %s has copy number %d but %d segment(s) descend from it" % (ctx, n, k, per.get(n, 0)),
                            "cn=%d" % min(k, 2))
    for n, r in segs.items():
        t = src[origin[n]]
        k = cn[origin[n]]
        rtags = [x for x in r.tags if x[0] != otag]
        if r.pos[1] != t.pos[1] or tagkey(rtags) != tagkey(t.tags, k if k >= 2 else None):
            raise Violation("cn-copy-differs", "%s\nsegment %s is not a faithful copy of %s (counts / %d): %r vs %r" % (ctx, n, origin[n], k, r.text(), t.text()))
    def proj(pos):
        p = list(pos)
        p[0], p[2] = origin[p[0]], origin[p[2]]
        return p
    src_links = {}
    for r in recs:
        if r.rt == "L":
            src_links[linkkey(r.pos, [])[1]] = r
    seen = Counter()
    for r in link_list:
        k = linkkey(proj(r.pos), [])[1]
        if k not in src_links:
            raise Violation("cn-link-invented", "%s\nlink %r joins copies of segments that were not linked like this" % (ctx, r.text()))
        s_ = src_links[k]
        f = max(cn[s_.pos[0]], 1) * max(cn[s_.pos[2]], 1)
        if tagkey([t for t in r.tags if t[0] != "ID"]) != tagkey([t for t in s_.tags if t[0] != "ID"], f if f >= 2 else None):
            raise Violation("cn-link-tags", "%s\nlink %r: tags differ from those of %r with the counts divided by %d" % (ctx, r.text(), s_.text(), f))
        seen[k] += 1
    for k, s_ in src_links.items():
        alive = cn[s_.pos[0]] >= 1 and cn[s_.pos[2]] >= 1
        if alive and not seen[k]:
            raise Violation("cn-link-lost", "%s\nno copy of link %r is left although both its segments have copy number >= 1" % (ctx, s_.text()))
        if not alive and seen[k]:
            raise Violation("cn-link-of-removed", "%s\na copy of link %r survives a removed segment" % (ctx, s_.text()))
        if alive and seen[k] > cn[s_.pos[0]] * cn[s_.pos[2]]:
            raise Violation("cn-link-too-many", "%s\n%d copies of link %r, at most %d possible" % (ctx, seen[k], s_.text(), cn[s_.pos[0]] * cn[s_.pos[2]]))
    want_c = Counter()
    for r in recs:
        if r.rt == "C":
            want_c[contkey(r.pos, [])[1]] += cn[r.pos[0]] * cn[r.pos[2]]
    got_c = Counter()
    for c in g.containments:
        rec = G.split_line(O.line_text(c), "gfa1")
        got_c[contkey(proj(rec.pos), [])[1]] += 1
    if +got_c != +want_c:
        raise Violation("cn-containments", "%s\ncontainments per source containment %s, expected %s" % (ctx, dict(got_c), dict(want_c)))
    ids = [str(x.get("ID")) for x in g.dovetails + g.containments if x.get("ID") is not None]
    if len(ids) != len(set(ids)):
        raise Violation("cn-edge-ids", "%s\nedge identifiers are not unique: %s" % (ctx, sorted(ids)))
    mult = [n for n, k in cn.items() if k >= 2]
    nt = len(mult) >= 2 and any(cn[r.pos[0]] >= 2 and cn[r.pos[2]] >= 2 for r in recs if r.rt == "L")
    return {"nt": nt, "cn0": any(k == 0 for k in cn.values()), "n_multiplied": min(len(mult), 3)}


@st.composite
def st_case_cn(draw):
    r = draw(st.randoms(use_true_random=False))
    doc, target = build(r)
    segnames = [l[1][0] for l in doc["lines"] if l[0] == "S"]
    if len(segnames) >= 2 and gen.chance(r, 0.35):
        # two segments that share a base name (A and A*2, A*2 and A*3): the automatic copy names of the
        # one must avoid the other and the copies made meanwhile
        base = segnames[0].split("*")[0]
        taken = set(segnames)
        new = gen.choice(r, [x for x in (base + "*2", base + "*3", base + "*4", base) if x not in taken] or [None])
        if new:
            old = segnames[1]
            for l in doc["lines"]:
                if l[0] == "S" and l[1][0] == old:
                    l[1][0] = new
                elif l[0] in "LC":
                    if l[1][0] == old:
                        l[1][0] = new
                    if l[1][2] == old:
                        l[1][2] = new
    ctag = gen.choice(r, ["cn", "cn", "cy"])
    otag = gen.choice(r, [None, None, "og"])
    lines = []
    for l in doc["lines"]:
        if l[0] == "P":
            continue
        if l[0] in "LC" and l[1][0] == l[1][2]:
            continue  # self-links: which copy the other side goes to is not specified
        if l[0] == "S":
            l[2] = [t for t in l[2] if t[0] not in ("cn", "cy", "or", "og")]
            l[2].append([ctag, "i", str(gen.choice(r, [0, 1, 1, 2, 2, 3]))])
        lines.append(l)
    doc["lines"] = lines
    return {"doc": doc, "count_tag": ctag, "origin_tag": otag, "vlevel": gen.choice(r, [1, 1, 2, 3])}


def parts(tier):
    return [Part("copy-numbers", prop_cn, strategy=st_case_cn(), n=300 if tier == "quick" else 1500, quick_shards=2),
            Part("gfa1", prop, strategy=st_case(), n=500 if tier == "quick" else 2500, quick_shards=2),
            Part("gfa2", prop2, strategy=st_case2(), n=250 if tier == "quick" else 1200, quick_shards=2)]
