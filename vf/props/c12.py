"""C12 A link and its complement are one edge."""
from hypothesis import strategies as st

from .. import gen, grammar as G, model as M, observe as O
from ..env import gfapy, GfapyError
from ..runner import Part, Violation

ID = "C12"
ATHERIS = ['multi', 'graph']  # parts also driven by libFuzzer in the thorough tier (vf/runner.py: all_parts)
RULE = ("part 'laws': links over all orientation pairs, distinct / self / hairpin, overlap '*' or a CIGAR over "
        "{M,I,D,P,=,X,H}, with tags: complement involution, reference/query length exchange, is_complement / "
        "is_eql / is_same / is_compatible symmetric and repeatable, equal hash of a link and its complement with the receiver textually unchanged, "
        "complement text equal to the model's; in half of the cases one operation of the CIGAR of the same Line object "
        "is then edited in place (length and code; also the CIGAR of the line complement() returned) and all laws are "
        "evaluated again for the edited link; part 'graph': a Gfa holding such links: adding the complement "
        "(without ID, with the stored link's ID, or with an unused ID of its own; as text or as a Line object, which must stay unconnected and usable) changes nothing and raises nothing, adding a link that differs in exactly one of {segment, one "
        "orientation, specified overlap} adds exactly one dovetail, paths traversing a link forwards and as "
        "complement, arriving before or after the link, resolve to the stored link with the direction flag the "
        "model computes; part 'multi': 2-5 links (45% parallel to an earlier one, in either form, with another overlap; some "
        "given in both forms) and 1-3 paths of 1-3 steps over them in either direction, all lines in one shuffled order: one "
        "real dovetail per distinct edge, every path step resolved to the stored link with the model's flag, then the "
        "complement of every stored link adds nothing. non-trivial = overlap has an I or D (complement != identity) or the link is a hairpin")
ASSUMPTIONS = [
    "S and N operations are outside the claim (the complement folds them onto D and I)",
    "a placeholder overlap acts as a wildcard in compatibility tests (documented); a placeholder and a specified overlap are never mixed on one end pair",
    "for a hairpin link whose complement has the same segments, orientations AND overlap (or a placeholder overlap) the direction flag of a path step is not judged (both are right)",
]
INV = {"+": "-", "-": "+"}
SEGS = ["A", "B", "C"]


def link_text(p, tags=()):
    return "\t".join(["L"] + list(p) + ["%s:%s:%s" % tuple(t) for t in tags])


def m_complement(p):
    f, fo, t, to, ov = p
    return [t, INV[to], f, INV[fo], M.complement_cigar(ov)]


def canon_l(text):
    return G.canon_line(text, "gfa1")


def prop_laws(case):
    p, tags = case["link"], case["tags"]
    vlevel = case.get("vlevel", 1)
    l = None
    labels = _laws(case, p, tags, vlevel, None)
    ed = case.get("edit")
    if ed and p[4] != "*":
        # the CIGAR of the same Line object is edited in place (tutorial: "Reading and editing
        # CIGARs"); every law must hold for the edited link as well
        ops = [list(x) for x in G.canon_cigar(p[4])]
        i = ed[0] % len(ops)
        ops[i] = [ed[1], ed[2]]
        p2 = list(p[:4]) + ["".join("%d%s" % (n, c) for n, c in ops)]
        try:
            l = gfapy.Line(link_text(p, tags), version="gfa1", vlevel=vlevel)
            c0 = l.complement()
            l.complement()
            l.overlap[i].length = ed[1]
            l.overlap[i].code = ed[2]
            if ed[3]:
                # the line returned by complement() is edited too: it must be independent
                c0.overlap[0].length = c0.overlap[0].length + 7
        except Exception as e:
            raise Violation("raised", "%s: %s while editing the CIGAR of %r" % (type(e).__name__, str(e)[:300], link_text(p, tags)), type(e).__name__)
        _laws(case, p2, tags, vlevel, l)
        labels["edited"] = True
    return labels


def _laws(case, p, tags, vlevel, l):
    text = link_text(p, tags)
    try:
        if l is None:
            l = gfapy.Line(text, version="gfa1", vlevel=vlevel)
        elif canon_l(str(l)) != canon_l(text):
            raise Violation("edit-not-written", "after the in-place edit the link is written %r, expected %r" % (str(l), text))
        before = str(l)
        c = l.complement()
        cc = c.complement()
        want_c = canon_l(link_text(m_complement(p), tags))
        if canon_l(str(c)) != want_c:
            raise Violation("complement-text", "complement of %r is %r, expected %r" % (text, str(c), link_text(m_complement(p), tags)))
        if canon_l(str(cc)) != canon_l(text):
            raise Violation("involution", "complement(complement(%r)) = %r" % (text, str(cc)))
        if str(l) != before:
            raise Violation("receiver-changed", "%r became %r after complement()" % (before, str(l)))
        if p[4] != "*":
            ref, qry = gen.cigar_lengths(p[4])
            lo, co = l.overlap, c.overlap
            got = (lo.length_on_reference(), lo.length_on_query(), co.length_on_reference(), co.length_on_query())
            if got != (ref, qry, qry, ref):
                raise Violation("lengths", "%r: (ref,qry,c.ref,c.qry)=%s expected %s" % (text, got, (ref, qry, qry, ref)))
        # the canonical one of the two forms: the link itself or its complement, the same one from either form
        try:
            k1, k2 = l.canonicize(), c.canonicize()
            canon_ok = k1.is_canonical() and k2.is_canonical()
        except Exception as e:
            raise Violation("canonicize-raised", "canonicize() of %r (or of its complement %r) raised %s: %s" % (text, str(c), type(e).__name__, str(e)[:200]), type(e).__name__)
        if not canon_ok or canon_l(str(k1)) not in (canon_l(text), want_c) or (
                canon_l(str(k1)) != canon_l(str(k2)) and not (l.is_canonical() and c.is_canonical())):
            raise Violation("canonicize", "canonicize() of %r gives %r, of its complement %r" % (text, str(k1), str(k2)))
        if str(l) != before:
            raise Violation("receiver-changed", "%r became %r after canonicize()" % (before, str(l)))
        # documented with Link.__hash__: a link and its complement have the same hash
        if hash(l) != hash(c) or hash(l) != hash(l):
            raise Violation("hash", "hash of %r and of its complement differ (or are not repeatable)" % text)
        for rep in range(3):
            if not l.is_complement(c) or not c.is_complement(l):
                raise Violation("is_complement", "is_complement false (repetition %d) for %r / %r" % (rep, text, str(c)))
            if not l.is_eql(c) or not c.is_eql(l) or not l.is_eql(l):
                raise Violation("is_eql", "is_eql not symmetric/reflexive (repetition %d) for %r" % (rep, text))
            if not l.is_same(l) or not l.is_same(gfapy.Line(text, version="gfa1")):
                raise Violation("is_same", "is_same false on an equal link %r" % text)
            OL = gfapy.OrientedLine
            if not l.is_compatible(OL(p[0], p[1]), OL(p[2], p[3]), p[4]):
                raise Violation("is_compatible", "direct form not compatible: %r" % text)
            mc = m_complement(p)
            if not l.is_compatible(OL(mc[0], mc[1]), OL(mc[2], mc[3]), mc[4]):
                raise Violation("is_compatible", "complement form not compatible: %r" % text)
            if str(l) != before or canon_l(str(c)) != want_c:
                raise Violation("receiver-changed", "equivalence tests changed %r -> %r / complement %r" % (before, str(l), str(c)))
        # a different edge is not equivalent
        for v in case["variants"]:
            if M.link_form_key(v) == M.link_form_key(p):
                continue
            lv = gfapy.Line(link_text(v), version="gfa1", vlevel=vlevel)
            star = (v[4] == "*") != (p[4] == "*")
            if l.is_eql(lv) or lv.is_eql(l) or l.is_complement(lv) or (l.is_same(lv)):
                raise Violation("different-edge-equal", "%r considered equivalent to %r" % (text, link_text(v)))
            if not star and M.ends_key(*v[:4]) != M.ends_key(*p[:4]) and \
                    l.is_compatible(gfapy.OrientedLine(v[0], v[1]), gfapy.OrientedLine(v[2], v[3]), v[4]):
                raise Violation("different-edge-compatible", "%r compatible with %r" % (text, link_text(v)))
    except Violation:
        raise
    except Exception as e:
        raise Violation("raised", "%s: %s on %r" % (type(e).__name__, str(e)[:300], text), type(e).__name__)
    ops = set(op for _n, op in G.canon_cigar(p[4])) if p[4] != "*" else set()
    hairpin = (p[0] == p[2] and p[1] != p[3])
    return {"nt": bool(ops & set("ID")) or hairpin, "hairpin": hairpin, "self": p[0] == p[2], "placeholder": p[4] == "*"}


def prop_graph(case):
    p, tags = case["link"], case["tags"]
    vlevel = case.get("vlevel", 1)
    segs = ["S\t%s\t*\tLN:i:50" % s for s in SEGS]
    text = link_text(p, tags)
    mc = m_complement(p)
    # a hairpin whose complement joins the same oriented ends: the direction is still defined
    # by the overlap, unless the overlap is its own complement (or a placeholder)
    selfcomp = tuple(mc[:4]) == tuple(p[:4]) and (p[4] == "*" or G.canon_cigar(mc[4]) == G.canon_cigar(p[4]))
    try:
        g = gfapy.Gfa(version="gfa1", vlevel=vlevel)
        # paths: forward and complement traversal; before or after the link
        fwd = "P\tpf\t%s%s,%s%s\t%s" % (p[0], p[1], p[2], p[3], p[4])
        rev = "P\tpr\t%s%s,%s%s\t%s" % (mc[0], mc[1], mc[2], mc[3], mc[4])
        order = case["order"]  # list of tokens
        for tok in order:
            g.add_line({"S": None, "L": text, "PF": fwd, "PR": rev}[tok]) if tok != "S" else [g.add_line(s) for s in segs]
        probs = O.invariants(g)
        if probs:
            raise Violation("invariant", "\n".join(probs[:4]) + "\n" + str(g))
        links = [x for x in g.dovetails if not x.virtual]
        if len(g.dovetails) != 1 or len(links) != 1:
            raise Violation("n-dovetails", "expected exactly one (real) dovetail after order %s:\n%s" % (order, g))
        stored = links[0]
        if canon_l(str(stored))[1] != canon_l(text)[1]:
            raise Violation("stored-form", "stored link %r differs from the added one %r" % (str(stored), text))
        for pn, direction in (("pf", "+"), ("pr", "-")):
            path = g.line(pn)
            if path is None:
                continue
            pl = path.links
            if len(pl) != 1 or pl[0].line is not stored:
                raise Violation("path-link", "path %s does not resolve to the stored link (order %s)\n%s" % (pn, order, g))
            if not selfcomp and pl[0].orient != direction:
                raise Violation("path-direction", "path %s over %r: flag %s expected %s (order %s)" % (pn, text, pl[0].orient, direction, order))
            cp = path.captured_path
            if len(cp) != 3 or cp[1].line is not stored or cp[0].line is not g.segment(cp[0].name) or \
                    str(cp[0]) != (p[0] + p[1] if pn == "pf" else mc[0] + mc[1]) or str(cp[2]) != (p[2] + p[3] if pn == "pf" else mc[2] + mc[3]):
                raise Violation("captured-path", "captured_path of %s wrong: %s" % (pn, [str(x) for x in cp]))
            if stored not in [x for x in stored._refs.get("paths", [])] and path not in stored._refs.get("paths", []):
                raise Violation("path-backref", "stored link does not back-reference path %s" % pn)
        # the complement() of the stored (connected) link is a free line: it belongs to no Gfa, refers to its
        # segments by name, and another Gfa that does not hold the edge takes it as a new link
        comp = stored.complement()
        if comp.is_connected() or comp.gfa is not None:
            raise Violation("complement-connected", "complement() of the stored link %r reports to be connected" % str(stored))
        if any(isinstance(comp.get(fn_), gfapy.Line) for fn_ in ("from_segment", "to_segment")):
            raise Violation("complement-aliases-graph", "complement() of the stored link %r refers to Line objects of the Gfa (%r)" % (
                str(stored), [type(comp.get(fn_)).__name__ for fn_ in ("from_segment", "to_segment")]))
        g4 = gfapy.Gfa(segs, version="gfa1", vlevel=vlevel)
        g4.add_line(comp)
        if len(g4.dovetails) != 1 or not comp.is_connected():
            raise Violation("complement-not-added", "complement() of the stored link %r offered to another Gfa (segments only): %d dovetails\n%s" % (
                str(stored), len(g4.dovetails), g4))
        before = O.observe(g)
        btxt = str(g)
        ctags = list(case.get("ctags", []))
        if case.get("cid"):
            ctags.append(["ID", "Z", case["cid"]])
        if case.get("c_instance"):
            # given as a Line object: it is not stored, so it stays a free line the caller may
            # offer again or give to another Gfa
            inst = gfapy.Line(link_text(mc, ctags), version="gfa1", vlevel=vlevel)
            g.add_line(inst)
            if inst.is_connected() or inst.gfa is not None:
                raise Violation("complement-instance-connected", "the complement %r given as a Line object was not stored but reports to be connected" % str(inst))
            g.add_line(inst)
            g3 = gfapy.Gfa(segs, version="gfa1", vlevel=vlevel)
            g3.add_line(inst)
            if len(g3.dovetails) != 1:
                raise Violation("complement-instance-unusable", "the refused complement object could not be added to another Gfa")
        else:
            g.add_line(link_text(mc, ctags))
        after = O.observe(g)
        if after != before or str(g) != btxt:
            raise Violation("add-complement", "adding the complement changed the Gfa:\n%s\n%s" % (O.obs_diff(before, after), str(g)))
        n = len(g.dovetails)
        for v in case["variants"]:
            if M.link_form_key(v) == M.link_form_key(p):
                continue
            if (v[4] == "*") != (p[4] == "*") and M.ends_key(*v[:4]) == M.ends_key(*p[:4]):
                continue
            g2 = gfapy.Gfa(segs + [text], version="gfa1", vlevel=vlevel)
            g2.add_line(link_text(v))
            if len(g2.dovetails) != 2:
                raise Violation("different-edge", "adding %r to a Gfa holding %r gives %d dovetails" % (link_text(v), text, len(g2.dovetails)))
    except Violation:
        raise
    except GfapyError as e:
        raise Violation("rejected", "%s: %s (link %r, order %s)" % (type(e).__name__, str(e)[:300], text, case["order"]), type(e).__name__)
    except Exception as e:
        raise Violation("raised", "%s: %s (link %r, order %s)" % (type(e).__name__, str(e)[:300], text, case["order"]), type(e).__name__)
    ops = set(op for _n, op in G.canon_cigar(p[4])) if p[4] != "*" else set()
    hairpin = (p[0] == p[2] and p[1] != p[3])
    return {"nt": bool(ops & set("ID")) or hairpin, "hairpin": hairpin, "order": "".join(t[0] + t[-1] for t in case["order"])}


def prop_multi(case):
    """Several links (parallel ones with different overlaps included) and paths over them in either direction, every
    line arriving in an arbitrary position: one dovetail per distinct edge, every path step resolved to the stored
    link with the model's direction flag; then the complement of every stored link adds nothing."""
    lines, vlevel = case["lines"], case.get("vlevel", 1)
    text = "\n".join(lines)
    recs = [G.split_line(x, "gfa1") for x in lines]
    stored = {}
    for rec in recs:
        if rec.rt == "L":
            stored.setdefault(M.link_form_key(rec.pos), rec)
    try:
        g = gfapy.Gfa(version="gfa1", vlevel=vlevel)
        for x in lines:
            g.add_line(x)
    except GfapyError as e:
        raise Violation("rejected", "%s: %s\n%s" % (type(e).__name__, str(e)[:300], text), "multi/" + type(e).__name__)
    ctx = "\n" + text + "\n-- gfa --\n" + str(g)
    probs = O.invariants(g)
    if probs:
        raise Violation("invariant", "\n".join(probs[:4]) + ctx)
    dov = g.dovetails
    if any(x.virtual for x in dov) or len(dov) != len(stored):
        raise Violation("n-dovetails", "%d dovetails (%d virtual) for %d distinct edges%s" % (len(dov), sum(1 for x in dov if x.virtual), len(stored), ctx), "multi")
    by_key = {}
    for x in dov:
        by_key[M.link_form_key(G.split_line(O.line_text(x), "gfa1").pos)] = x
    if set(by_key) != set(stored):
        raise Violation("stored-form", "the stored links are not the edges of the document%s" % ctx, "multi")
    judged = 0
    for rec in recs:
        if rec.rt != "P":
            continue
        path = g.line(rec.pos[0])
        steps = M.path_steps(rec)
        pl = path.links
        if len(pl) != len(steps):
            raise Violation("path-link", "path %s has %d links for %d steps%s" % (rec.pos[0], len(pl), len(steps), ctx), "multi")
        for st_, ol in zip(steps, pl):
            k = M.link_form_key(st_)
            want = by_key.get(k)
            if want is None or ol.line is not want:
                raise Violation("path-link", "path %s step %s does not resolve to the stored link %s but to %r%s" % (
                    rec.pos[0], st_, stored[k].text() if k in stored else None, str(ol.line), ctx), "multi")
            sp = stored[k].pos
            mc = m_complement(list(st_))
            selfcomp = tuple(mc[:4]) == tuple(st_[:4]) and G.canon_cigar(mc[4]) == G.canon_cigar(st_[4])
            if selfcomp:
                continue
            direct = tuple(sp[:4]) == tuple(st_[:4]) and G.canon_cigar(sp[4]) == G.canon_cigar(st_[4])
            judged += 1
            if ol.orient != ("+" if direct else "-"):
                raise Violation("path-direction", "path %s step %s over the stored link %r: flag %s, expected %s%s" % (
                    rec.pos[0], st_, stored[k].text(), ol.orient, "+" if direct else "-", ctx), "multi")
            if path not in want._refs.get("paths", []):
                raise Violation("path-backref", "stored link %r does not back-reference path %s%s" % (stored[k].text(), rec.pos[0], ctx), "multi")
    before, btxt = O.observe(g), str(g)
    for k, rec in sorted(stored.items()):
        c = m_complement(rec.pos)
        try:
            g.add_line(link_text(c))
        except GfapyError as e:
            raise Violation("add-complement", "adding the complement %r raised %s: %s%s" % (link_text(c), type(e).__name__, str(e)[:200], ctx), "multi/raised")
    after = O.observe(g)
    if after != before or str(g) != btxt:
        raise Violation("add-complement", "adding the complements of the stored links changed the Gfa:\n%s%s" % (O.obs_diff(before, after), ctx), "multi")
    ends = {}
    for k in stored:
        ends.setdefault(M.ends_key(*stored[k].pos[:4]), []).append(k)
    parallel = any(len(v) > 1 for v in ends.values())
    return {"nt": judged >= 2 and (parallel or any("I" in r_.pos[4] or "D" in r_.pos[4] for r_ in stored.values())), "parallel": parallel,
            "multi_judged": min(judged, 4)}


def build_multi(r):
    spec = gen.chance(r, 0.8)
    links, keys, ends = [], set(), {}
    for _ in range(r.randint(2, 5)):
        if links and spec and gen.chance(r, 0.45):
            # a parallel link: the same oriented ends as an earlier link (in either form), another overlap
            q = gen.choice(r, links)
            if gen.chance(r, 0.5):
                q = m_complement(q)
            p = list(q[:4]) + [gen.gen_cigar(r, "MIDP=XH", maxops=3)]
        else:
            p = gen_link(r)
            p[4] = gen.gen_cigar(r, "MIDP=XH", maxops=3) if spec else "*"
        k, ek = M.link_form_key(p), M.ends_key(*p[:4])
        if k in keys or (not spec and ek in ends):
            continue
        keys.add(k)
        ends[ek] = True
        links.append(p)
    lines = ["S\t%s\t*\tLN:i:50" % s_ for s_ in SEGS]
    for i, p in enumerate(links):
        tags = [["ID", "Z", "lk%d" % i]] if gen.chance(r, 0.3) else []
        lines.append(link_text(p, tags))
        if gen.chance(r, 0.15):
            lines.append(link_text(m_complement(p)))  # the same edge again, in the other form
    forms = [p for p in links] + [m_complement(p) for p in links]
    for j in range(r.randint(1, 3)):
        walk = [gen.choice(r, forms)]
        for _ in range(r.randint(0, 2)):
            nxt = [q for q in forms if q[0] == walk[-1][2] and q[1] == walk[-1][3]]
            if not nxt:
                break
            walk.append(gen.choice(r, nxt))
        segs_ = [walk[0][0] + walk[0][1]] + [w[2] + w[3] for w in walk]
        ovs = ",".join(w[4] for w in walk) if spec else "*"
        lines.append("P\tp%d\t%s\t%s" % (j, ",".join(segs_), ovs))
    r.shuffle(lines)
    return lines


@st.composite
def st_multi(draw):
    r = draw(st.randoms(use_true_random=False))
    return {"lines": build_multi(r), "vlevel": gen.choice(r, [0, 1, 1, 2, 3])}


def gen_link(r):
    shape = r.randrange(4)
    f = gen.choice(r, SEGS)
    fo, to = gen.choice(r, "+-"), gen.choice(r, "+-")
    if shape == 0:
        t = f
    elif shape == 1:
        t = f
        to = INV[fo]  # hairpin
    else:
        t = gen.choice(r, [s for s in SEGS if s != f])
    ov = "*" if gen.chance(r, 0.2) else gen.gen_cigar(r, "MIDP=XH", maxops=5)
    if ov != "*" and gen.fair(r, 0.06):
        # one operation of a length no machine integer holds (the CIGAR syntax puts no bound on lengths)
        ops_ = list(G.canon_cigar(ov))
        i = r.randrange(len(ops_))
        ops_[i] = (gen.choice(r, [2 ** 31, 2 ** 63 - 1, 2 ** 63, 2 ** 64 + 1, 10 ** 25]), ops_[i][1])
        ov = "".join("%d%s" % (n, o) for n, o in ops_)
    return [f, fo, t, to, ov]


def variants(r, p):
    out = []
    f, fo, t, to, ov = p
    out.append([gen.choice(r, [s for s in SEGS if s != f]), fo, t, to, ov])
    out.append([f, fo, gen.choice(r, [s for s in SEGS if s != t]), to, ov])
    out.append([f, INV[fo], t, to, ov])
    out.append([f, fo, t, INV[to], ov])
    if ov != "*":
        ov2 = gen.gen_cigar(r, "MIDP=XH", maxops=5)
        if G.canon_cigar(ov2) != G.canon_cigar(ov) and G.canon_cigar(M.complement_cigar(ov2)) != G.canon_cigar(ov):
            out.append([f, fo, t, to, ov2])
    return out


@st.composite
def st_laws(draw):
    r = draw(st.randoms(use_true_random=False))
    p = gen_link(r)
    edit = None
    if gen.chance(r, 0.5):
        edit = [r.randrange(6), r.randint(1, 9), gen.choice(r, "MIDP=XH"), gen.chance(r, 0.5)]
    return {"link": p, "tags": gen.gen_tags(r, "gfa1", "L", True, maxn=2), "variants": variants(r, p),
            "vlevel": gen.choice(r, [0, 1, 1, 2, 3]), "edit": edit}


@st.composite
def st_graph(draw):
    r = draw(st.randoms(use_true_random=False))
    p = gen_link(r)
    toks = ["S", "L"] + (["PF"] if gen.chance(r, 0.7) else []) + (["PR"] if gen.chance(r, 0.7) else [])
    r.shuffle(toks)
    tags = gen.gen_tags(r, "gfa1", "L", True, maxn=2)
    if gen.chance(r, 0.4):
        tags.append(["ID", "Z", "lk1"])
    # the complement comes without ID, with the stored link's ID or with an ID of its own
    cid = gen.choice(r, [None, None, "lk1" if any(t[0] == "ID" for t in tags) else "lk2", "lk2"])
    return {"link": p, "tags": tags, "cid": cid, "c_instance": gen.chance(r, 0.4),
            "ctags": gen.gen_tags(r, "gfa1", "L", True, maxn=1), "variants": variants(r, p),
            "order": toks, "vlevel": gen.choice(r, [0, 1, 1, 2, 3])}


def parts(tier):
    q = tier == "quick"
    return [Part("laws", prop_laws, strategy=st_laws(), n=1500 if q else 6000, quick_shards=2),
            Part("graph", prop_graph, strategy=st_graph(), n=500 if q else 3000, quick_shards=2),
            Part("multi", prop_multi, strategy=st_multi(), n=400 if q else 2500, quick_shards=2)]
