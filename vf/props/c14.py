"""C14 Linear-path merging spells the right sequence and keeps the rest intact."""
import itertools
from collections import Counter

from hypothesis import strategies as st

from .. import gen, grammar as G, model as M, observe as O
from ..env import gfapy, GfapyError
from ..runner import Part, Violation

ID = "C14"
ATHERIS = ['gfa1', 'gfa2']  # parts also driven by libFuzzer in the thorough tier (vf/runner.py: all_parts)
RULE = ("GFA1 graphs (and GFA2 graphs for chain detection) built from planted structure: runs of segments joined "
        "end to end with every orientation pattern, stored in either complement form, closed into cycles or not, "
        "plus extra links producing branching and dead-end junctions, self-links, hairpins on chain ends, parallel "
        "links; overlaps '*' or kM; segments with sequence or '*'+LN; containments and comments as bystanders. "
        "Oracle: chains recomputed from the text (degree of each segment end; a junction is linear iff both joined "
        "ends have degree 1; maximal runs of >= 2 segments) vs linear_paths() as a set of chains modulo reversal "
        "and rotation; after merge_linear_paths(): one new segment per chain with the model's spelled sequence "
        "(own reverse-complement table, successors trimmed by the overlap) and LN, exactly the chain's outward "
        "links re-attached to the right ends, members gone, other lines unchanged, components preserved, closure/"
        "symmetry invariants, second merge a no-op; 35% of the cases pass options that must not matter (merged_name='short', "
        "cut_counts, enable_tracking); part 'cli': bin/gfapy-mergelinear (--vlevel 0..3, --short) as a subprocess, its printed "
        "graph judged by the same oracle. non-trivial = a chain of >= 3 members with >= 1 reversed "
        "member and >= 1 branching junction in the graph; distinct by hash")
ASSUMPTIONS = [
    "overlaps are '*' or a single run of M (the merge is documented for match-only overlaps); overlap shorter than both segments",
    "fresh names of merged segments are not assumed: merged segments are located by set difference and matched to chains by search over bijections",
    "GFA2: only chain detection and structural effects of merging are judged; coordinates of re-attached E lines are not (the property speaks of orientations)",
    "paths over chain members are not generated (they are dependants of removed lines)",
]
INV = {"+": "-", "-": "+"}
OTHER = {"L": "R", "R": "L"}
# IUPAC nucleotide codes and their complements (from the IUPAC table: R = A/G <-> Y = C/T, K = G/T <-> M = A/C,
# B = not A <-> V = not T, D = not C <-> H = not G; S = C/G, W = A/T and N are their own complements)
_PAIRS = [("A", "T"), ("C", "G"), ("R", "Y"), ("K", "M"), ("B", "V"), ("D", "H")]
COMP = {}
for _a, _b in _PAIRS:
    COMP[_a], COMP[_b], COMP[_a.lower()], COMP[_b.lower()] = _b, _a, _b.lower(), _a.lower()
for _c in "SWN":
    COMP[_c], COMP[_c.lower()] = _c, _c.lower()
IUPAC = "ACGTACGTACGTRYKMSWBDHVNacgtswn"


def rc(s):
    return "".join(COMP[c] for c in reversed(s))


def link_ends(p):
    """Two segment ends joined by link positional fields p."""
    f, fo, t, to = p[:4]
    return (f, "R" if fo == "+" else "L"), (t, "L" if to == "+" else "R")


def overlap_len(ov):
    if ov == "*":
        return 0
    return sum(n for n, _op in G.canon_cigar(ov))


class Graph:
    def __init__(self, doc):
        v = self.version = doc["version"]
        self.recs = [G.Rec.from_plain(l, v) for l in doc["lines"]]
        self.segs = {r.pos[0]: r for r in self.recs if r.rt == "S"}
        self.ends = {}
        self.ovlen = {}
        if v == "gfa1":
            self.links = [r for r in self.recs if r.rt == "L"]
            for l in self.links:
                self.ends[id(l)] = link_ends(l.pos)
                self.ovlen[id(l)] = overlap_len(l.pos[4])
        else:
            self.links = []
            for r in self.recs:
                if r.rt == "E":
                    k, k1, k2 = M.classify_edge(r)
                    if k == "L":
                        self.links.append(r)
                        self.ends[id(r)] = ((r.pos[1][:-1], k1[-1]), (r.pos[2][:-1], k2[-1]))
                        self.ovlen[id(r)] = M.pos_val(r.pos[4])[0] - M.pos_val(r.pos[3])[0]
        self.inc = {}
        for s in self.segs:
            self.inc[(s, "L")] = []
            self.inc[(s, "R")] = []
        for l in self.links:
            a, b = self.ends[id(l)]
            self.inc[a].append((l, b))
            self.inc[b].append((l, a))

    def seq_len(self, s):
        rec = self.segs[s]
        if self.version == "gfa1":
            seq = rec.pos[1]
            ln = rec.tag("LN")
            return seq, (len(seq) if seq != "*" else (int(ln[1]) if ln else None))
        return rec.pos[2], int(rec.pos[1])

    def link_sig(self, l):
        """(overlap length or '*', tags) of an edge, ignoring direction and coordinates."""
        if self.version == "gfa1":
            return (overlap_len(l.pos[4]) if l.pos[4] != "*" else "*", tagkey(l))
        return (self.ovlen[id(l)], tagkey(l))

    def linear_next(self, end):
        """If the junction at `end` is linear: (link, other end) else None."""
        lst = self.inc[end]
        if len(lst) != 1:
            return None
        l, other = lst[0]
        if other == end:
            return None
        if len(self.inc[other]) != 1:
            return None
        return l, other

    def chains(self):
        """Maximal chains as lists of (segment, orientation, link_to_next or None); the
        orientation is '+' if the chain enters at L and leaves at R."""
        visited = set()
        out = []
        for s in self.segs:
            if s in visited:
                continue
            # walk backwards from s's L end
            start, exit_end = s, "R"
            seen = {s}
            cyc = False
            cur, entry = s, "L"
            while True:
                nx = self.linear_next((cur, entry))
                if nx is None:
                    break
                _l, (o, oe) = nx
                if o == s or o in seen:
                    cyc = (o == s)
                    break
                seen.add(o)
                cur, entry = o, OTHER[oe]
                # we arrived at `o` through its end oe, so walking backwards we leave via the other end
            start, start_entry = cur, entry
            # walk forwards from start
            chain = []
            cur, ent = start, start_entry
            seen2 = set()
            while True:
                seen2.add(cur)
                ex = OTHER[ent]
                nx = self.linear_next((cur, ex))
                orient = "+" if ent == "L" else "-"
                if nx is None:
                    chain.append((cur, orient, None))
                    break
                l, (o, oe) = nx
                if o in seen2:
                    # closes a cycle (only when o is the start and the junction is linear)
                    chain.append((cur, orient, l if o == start and oe == start_entry else None))
                    break
                chain.append((cur, orient, l))
                cur, ent = o, oe
            for c, _o, _l in chain:
                visited.add(c)
            if len(chain) >= 2:
                out.append(chain)
        return out


def chain_key(names, circular):
    """Canonical form of a chain's member sequence modulo reversal (and rotation)."""
    names = list(names)
    cands = [names, names[::-1]]
    if circular:
        rots = []
        for c in cands:
            for i in range(len(c)):
                rots.append(c[i:] + c[:i])
        cands = rots
    return min(tuple(c) for c in cands)


def spell(graph, chain):
    """(sequence or '*', length or None) of the chain in its own direction."""
    seqs = []
    total = 0
    known_len = True
    star = False
    for i, (s, o, _l) in enumerate(chain):
        seq, n = graph.seq_len(s)
        cut = 0
        if i > 0:
            cut = graph.ovlen[id(chain[i - 1][2])]
        if seq == "*":
            star = True
        else:
            x = seq if o == "+" else rc(seq)
            seqs.append(x[cut:])
        if n is None:
            known_len = False
        else:
            total += n - cut
    return ("*" if star else "".join(seqs)), (total if known_len else None)


def spell_backwards(graph, chain):
    """The chain walked from its other end (every member in the opposite orientation): where two members
    disagree inside an overlap this is not the reverse complement of spell() - the overlapping bases are
    taken from the other member. None for circular chains."""
    if chain[-1][2] is not None:
        return None
    rev = [(chain[i][0], "-" if chain[i][1] == "+" else "+", chain[i - 1][2] if i > 0 else None) for i in range(len(chain) - 1, -1, -1)]
    return spell(graph, rev)


def expected_after_merge(graph, chains):
    """Expected links after merging, with chain members replaced by ('#chain', i)."""
    member = {}
    for i, ch in enumerate(chains):
        circular = ch[-1][2] is not None
        for j, (s, o, _l) in enumerate(ch):
            member[s] = (i, j, o, len(ch), circular)
    internal = set()
    for ch in chains:
        for (_s, _o, l) in ch:
            if l is not None:
                internal.add(id(l))

    def map_end(e):
        s, et = e
        if s not in member:
            return e
        i, j, o, n, circular = member[s]
        entry = "L" if o == "+" else "R"
        exit_ = OTHER[entry]
        if j == 0 and et == entry:
            return (("#", i), "L")
        if j == n - 1 and et == exit_:
            return (("#", i), "R")
        return None  # an inner end: only internal links can be there

    out = Counter()
    for l in graph.links:
        a, b = graph.ends[id(l)]
        if id(l) in internal:
            # the closing link of a circular chain survives as a link of the merged segment with itself
            ch = next(c for c in chains if any(x[2] is l for x in c))
            if ch[-1][2] is l:
                i = chains.index(ch)
                out[(frozenset([(("#", i), "R"), (("#", i), "L")]),) + graph.link_sig(l)] += 1
            continue
        ma, mb = map_end(a), map_end(b)
        if ma is None or mb is None:
            raise AssertionError("model: outward link on an inner end")
        key = frozenset([ma, mb]) if ma != mb else frozenset([ma, "hairpin"])
        out[(key,) + graph.link_sig(l)] += 1
    return out, member


def tagkey(rec):
    return tuple(sorted(((n, t, G.canon_tag_value(t, v)) for n, t, v in rec.tags), key=repr))


def observed_links(g, name_map):
    out = Counter()
    if g.version == "gfa2":
        # from the written E lines, classified by the model (interval kinds and orientations)
        for l in g.edges:
            rec = G.split_line(O.line_text(l), "gfa2")
            k, k1, k2 = M.classify_edge(rec)
            if k != "L":
                out[("not-a-dovetail", rec.text())] += 1
                continue
            a, b = (rec.pos[1][:-1], k1[-1]), (rec.pos[2][:-1], k2[-1])
            a = (name_map.get(a[0], a[0]), a[1])
            b = (name_map.get(b[0], b[0]), b[1])
            key = frozenset([a, b]) if a != b else frozenset([a, "hairpin"])
            out[(key, M.pos_val(rec.pos[4])[0] - M.pos_val(rec.pos[3])[0], tagkey(rec))] += 1
        return out
    for l in g.dovetails:
        rec = G.split_line(O.line_text(l), "gfa1")
        a, b = link_ends(rec.pos)
        a = (name_map.get(a[0], a[0]), a[1])
        b = (name_map.get(b[0], b[0]), b[1])
        key = frozenset([a, b]) if a != b else frozenset([a, "hairpin"])
        out[(key, overlap_len(rec.pos[4]) if rec.pos[4] != "*" else "*", tagkey(rec))] += 1
    return out


def flip_chain_ends(cnt, i):
    out = Counter()
    for (key, ov, tg), n in cnt.items():
        nk = frozenset(((e[0], OTHER[e[1]]) if isinstance(e, tuple) and e[0] == ("#", i) else e) for e in key)
        out[(nk, ov, tg)] += n
    return out


def prop(case):
    doc = case["doc"]
    lines = gen.doc_lines(doc)
    if case.get("order") == "edges_first":
        # the same document with the edges before the segments they join (the order of the lines of a file is free)
        lines = [x for x in lines if x[:1] in "LCE"] + [x for x in lines if x[:1] not in "LCE"]
    elif case.get("order") == "reversed":
        # (the segments keep their relative order: where a circular chain is cut open follows the order of the segments)
        lines = [x for x in lines if x[:1] in "LCE"][::-1] + [x for x in lines if x[:1] not in "LCE"]
    graph = Graph(doc)
    chains = graph.chains()
    text = "\n".join(lines)
    try:
        g = gfapy.Gfa(lines, version=doc["version"], vlevel=case.get("vlevel", 1))
    except Exception as e:
        raise Violation("load", "valid graph not loaded: %s: %s\n%s" % (type(e).__name__, str(e)[:300], text), type(e).__name__)
    # ---- detection
    try:
        lps = g.linear_paths()
    except Exception as e:
        raise Violation("linear_paths-raised", "%s: %s\n%s" % (type(e).__name__, str(e)[:300], text), type(e).__name__)
    want = Counter(chain_key([c[0] for c in ch], ch[-1][2] is not None) for ch in chains)
    got = Counter()
    for lp in lps:
        names = [gfapy.SegmentEnd(x).name for x in lp]
        circ = any(chain_key(names, True) == k for k in want) and not any(chain_key(names, False) == k for k in want)
        got[chain_key(names, circ)] += 1
    if got != want:
        raise Violation("chains", "linear_paths() = %s, model chains = %s\n%s" % (sorted(got.elements()), sorted(want.elements()), text))
    for sname in graph.segs:
        try:
            lp = g.linear_path(sname)
        except Exception as e:
            raise Violation("linear_path-raised", "linear_path(%s): %s: %s\n%s" % (sname, type(e).__name__, str(e)[:200], text), type(e).__name__)
        names = [gfapy.SegmentEnd(x).name for x in lp]
        mine = [ch for ch in chains if sname in [c[0] for c in ch]]
        if mine:
            ch = mine[0]
            circ = ch[-1][2] is not None
            if chain_key(names, circ) != chain_key([c[0] for c in ch], circ):
                raise Violation("linear_path", "linear_path(%s) = %s, model chain %s\n%s" % (sname, names, [c[0] for c in ch], text))
        elif len(names) > 1:
            raise Violation("linear_path", "linear_path(%s) = %s but the segment is in no chain\n%s" % (sname, names, text))
    if any("_" in c[0] for ch in chains for c in ch):
        # a chain member whose name looks like a merged name: once it is gone a merged segment may take its
        # name, and the comparison by names below cannot tell the two apart
        # -- the merge itself still has to go through and leave a coherent graph
        if not case.get("cli"):
            mopts = dict(case.get("merge_opts") or {})
            try:
                g.merge_linear_paths(**mopts)
            except Exception as e:
                raise Violation("merge-raised", "merge_linear_paths(%r) raised %s: %s\n%s" % (mopts, type(e).__name__, str(e)[:300], text),
                                "%s/underscore-name" % type(e).__name__)
            probs = O.invariants(g)
            if probs:
                raise Violation("invariant", "after merging: %s\n%s\n-- after --\n%s" % (probs[:4], text, str(g)))
            if len(g.segment_names) != len(graph.segs) - sum(len(ch) - 1 for ch in chains):
                raise Violation("segments", "%d segments after merging %d chain(s) with %d members in all, of %d segments\n%s\n-- after --\n%s" % (
                    len(g.segment_names), len(chains), sum(len(ch) for ch in chains), len(graph.segs), text, str(g)))
        return {"nt": False, "member_named_like_merged": True}
    # ---- merge
    comps_before = M.ModelDoc.from_doc({"version": doc["version"], "lines": doc["lines"]}).components()
    V = doc["version"]
    before_other = Counter(O.line_key(l, V) for l in g.lines if l.record_type in ("#", "H"))
    mopts = dict(case.get("merge_opts") or {})
    if case.get("cli"):
        from .. import cli
        args = ["x.gfa", "--no-progress", "--vlevel", str(case.get("vlevel", 1))] + (["--short"] if mopts.get("merged_name") == "short" else [])
        try:
            rcode, out, err = cli.run_script("gfapy-mergelinear", args, {"x.gfa": text + "\n"})
        except Exception as e:
            if type(e).__name__ == "TimeoutExpired":
                raise Violation("cli-hang", "gfapy-mergelinear did not terminate\n%s" % text)
            raise
        if rcode != 0 or "Traceback" in err:
            raise Violation("cli-failed", "gfapy-mergelinear %s: exit status %s\n%s\n%s" % (args[1:], rcode, err[-1200:], text), (err.strip().split("\n") or [""])[-1].split(":")[0][:40])
        try:
            g = gfapy.Gfa(out, version=V, vlevel=1)
        except Exception as e:
            raise Violation("cli-output", "the output of gfapy-mergelinear does not load: %s: %s\n%s\n-- output --\n%s" % (type(e).__name__, str(e)[:300], text, out), type(e).__name__)
    else:
        try:
            g.merge_linear_paths(**mopts)
        except Exception as e:
            raise Violation("merge-raised", "merge_linear_paths(%r) raised %s: %s\n%s" % (mopts, type(e).__name__, str(e)[:300], text),
                            "%s/%s" % (type(e).__name__, "hairpin" if any(graph.ends[id(l)][0] == graph.ends[id(l)][1] for l in graph.links) else "-"))
    after_text = str(g)
    probs = O.invariants(g)
    if probs:
        raise Violation("invariant", "after merging: %s\n%s\n-- after --\n%s" % (probs[:4], text, after_text))
    members = set(c[0] for ch in chains for c in ch)
    now = set(g.segment_names)
    if members & now:
        raise Violation("member-survives", "chain member(s) %s still present\n%s\n-- after --\n%s" % (sorted(members & now), text, after_text))
    new = sorted(now - set(graph.segs))
    if len(new) != len(chains) or (set(graph.segs) - members) - now:
        raise Violation("segments", "expected %d new segment(s), got %s; missing bystanders %s\n%s\n-- after --\n%s" % (
            len(chains), new, sorted((set(graph.segs) - members) - now), text, after_text))
    for s in set(graph.segs) - members:
        if O.line_key(g.segment(s), V) != G.canon_rec(graph.segs[s]):
            raise Violation("bystander-changed", "segment %s changed: %r\n%s" % (s, str(g.segment(s)), text))
    exp_links, member = expected_after_merge(graph, chains)
    spelled = [spell(graph, ch) for ch in chains]
    ok = False
    why = []
    for perm in itertools.permutations(range(len(chains))):
        # perm[i] = index in `new` of the segment merged from chain i
        name_map = {new[perm[i]]: ("#", i) for i in range(len(chains))}
        obs = observed_links(g, name_map)
        allowed = []
        good = True
        for i, ch in enumerate(chains):
            seg = g.segment(new[perm[i]])
            seq, ln = spelled[i]
            gs = str(seg.sequence) if not gfapy.is_placeholder(seg.sequence) else "*"
            opts = []
            if gs == seq:
                opts.append(False)
            if (seq != "*" and gs == rc(seq)) or (seq == "*" and gs == "*"):
                opts.append(True)
            back = spell_backwards(graph, ch)
            if back is not None and back[0] != "*":
                # (the traversal may start from either end of the chain: which end comes first in the file is not
                #  part of the graph)
                if gs == back[0] and True not in opts:
                    opts.append(True)
                if gs == rc(back[0]) and False not in opts:
                    opts.append(False)
            if not opts:
                good = False
                why.append("sequence: chain %s spelled %r, expected %r or its reverse complement" % ([c[0] for c in ch], gs, seq))
                break
            seg_ln = seg.LN if V == "gfa1" else seg.slen
            if ln is not None and seg_ln is not None and seg_ln != ln:
                good = False
                why.append("LN: chain %s has length %r, expected %r" % ([c[0] for c in ch], seg_ln, ln))
                break
            if seq != "*" and seg_ln is not None and seg_ln != len(gs):
                good = False
                why.append("LN: chain %s has length %r but a sequence of length %d" % ([c[0] for c in ch], seg_ln, len(gs)))
                break
            allowed.append(sorted(set(opts)))
        if not good:
            continue
        for flips in itertools.product(*allowed):
            e2 = exp_links
            for i, fl in enumerate(flips):
                if fl:
                    e2 = flip_chain_ends(e2, i)
            if obs == e2:
                ok = True
                break
        if ok:
            break
        why.append("links: expected %s\n got %s" % (sorted(map(repr, exp_links.elements())), sorted(map(repr, obs.elements()))))
    if not ok and chains:
        raise Violation("merge-result", "merged graph differs from the model:\n%s\n-- before --\n%s\n-- after --\n%s" % (
            "\n".join(why[:3]), text, after_text), why[0].split(":")[0] if why else "")
    if not chains and observed_links(g, {}) != exp_links:
        raise Violation("merge-result", "graph without chains changed\n%s\n-- after --\n%s" % (text, after_text))
    # bystanders
    after_other = Counter(O.line_key(l, V) for l in g.lines if l.record_type in ("#", "H"))
    if after_other != before_other:
        raise Violation("bystander-changed", "comments/header changed\n%s\n-- after --\n%s" % (text, after_text))
    cont_exp = Counter(G.canon_rec(r) for r in graph.recs if r.rt == "C" and r.pos[0] not in members and r.pos[2] not in members)
    cont_got = Counter(O.line_key(l, V) for l in g.containments) if V == "gfa1" else cont_exp
    if cont_exp != cont_got:
        raise Violation("bystander-changed", "containments: %s\n%s\n-- after --\n%s" % (G.counter_diff(cont_exp, cont_got), text, after_text))
    # components preserved under member -> merged
    try:
        cc = g.connected_components()
    except Exception as e:
        raise Violation("cc-raised", "connected_components after merge: %s" % e)
    if len(cc) != len(comps_before):
        raise Violation("components", "number of components %d -> %d\n%s\n-- after --\n%s" % (len(comps_before), len(cc), text, after_text))
    # the merged graph is a valid document (GFA2: '$' exactly at the merged segment's length)
    try:
        g2 = gfapy.Gfa(after_text, version=V, vlevel=3)
        g2.validate()
        if V == "gfa2":
            m2 = M.ModelDoc(V, [G.split_line(x, V) for x in after_text.split("\n") if x])
            lens = {r.pos[0]: int(r.pos[1]) for r in m2.recs if r.rt == "S"}
            for r in m2.recs:
                if r.rt == "E":
                    for sidf, b, e in ((1, 3, 4), (2, 5, 6)):
                        n_ = lens[r.pos[sidf][:-1]]
                        for p_ in (r.pos[b], r.pos[e]):
                            v_, last = M.pos_val(p_)
                            if v_ > n_ or last != (v_ == n_):
                                raise Violation("merged-coordinates", "E line %r: position %s on a segment of length %d\n%s\n-- after --\n%s" % (
                                    r.text(), p_, n_, text, after_text))
    except Violation:
        raise
    except Exception as e:
        raise Violation("merged-invalid", "the merged graph is not a valid document: %s: %s\n%s\n-- after --\n%s" % (
            type(e).__name__, str(e)[:300], text, after_text), type(e).__name__)
    # idempotence
    try:
        g.merge_linear_paths(**mopts)
    except Exception as e:
        raise Violation("second-merge-raised", "%s: %s\n%s" % (type(e).__name__, str(e)[:200], after_text), type(e).__name__)
    if str(g) != after_text:
        raise Violation("not-idempotent", "a second merge changed the graph\n-- first --\n%s\n-- second --\n%s" % (after_text, str(g)))
    branching = any(len(v) >= 2 for v in graph.inc.values())
    nt = any(len(ch) >= 3 and any(o == "-" for _s, o, _l in ch) for ch in chains) and branching
    return {"nt": nt, "n_chains": min(len(chains), 3), "circular": any(ch[-1][2] is not None for ch in chains),
            "hairpin": any(graph.ends[id(l)][0] == graph.ends[id(l)][1] for l in graph.links), "version": V,
            "merge_opts": ",".join(sorted(mopts)) or None, "cli": bool(case.get("cli"))}


def build_chain_graph(r):
    iupac = gen.chance(r, 0.3)  # sequences over the whole IUPAC alphabet, in both cases
    n = r.randint(2, 9)
    names = ["s%d" % i for i in range(n)]
    lines = []
    slen = {}
    for s in names:
        k = r.randint(4, 12)
        slen[s] = k
        tags = []
        if gen.chance(r, 0.65):
            seq = "".join(gen.choice(r, "ACGT" if not iupac else IUPAC) for _ in range(k))
            if gen.chance(r, 0.5):
                tags.append(["LN", "i", str(k)])
        else:
            seq = "*"
            tags.append(["LN", "i", str(k)])
        if gen.chance(r, 0.2):
            tags.append(["xx", "Z", "t" + s])
        lines.append(["S", [s, seq], tags])
    order = list(names)
    r.shuffle(order)
    have = set()
    links = []
    int_ids = gen.chance(r, 0.3)  # links (GFA2: edges) identified by integer-looking names: 1, 2, ...

    def add(f, fo, t, to, ov=None):
        if ov is None:
            ov = "*" if gen.chance(r, 0.4) else "%dM" % r.randint(1, 3)
        key = M.ends_key(f, fo, t, to)
        if key in have:
            return
        have.add(key)
        if gen.chance(r, 0.5):
            f, fo, t, to = t, INV[to], f, INV[fo]
        tg = [["ab", "i", str(len(links))]] if gen.chance(r, 0.3) else []
        if int_ids and gen.chance(r, 0.7):
            tg.append(["ID", "Z", str(len(links) + 1)])
        links.append(["L", [f, fo, t, to, ov], tg])

    i = 0
    while i < len(order):
        k = r.randint(1, 5)
        run = order[i:i + k]
        i += k
        ors = [gen.choice(r, "+-") for _ in run]
        for j in range(len(run) - 1):
            add(run[j], ors[j], run[j + 1], ors[j + 1])
        if len(run) >= 2 and gen.chance(r, 0.2):
            add(run[-1], ors[-1], run[0], ors[0])
    for _ in range(r.randint(0, 3)):
        a, b = gen.choice(r, names), gen.choice(r, names)
        add(a, gen.choice(r, "+-"), b, gen.choice(r, "+-"))
    if gen.chance(r, 0.25):
        a = gen.choice(r, names)
        o = gen.choice(r, "+-")
        add(a, o, a, INV[o])  # hairpin
    lines += links
    for _ in range(r.randint(0, 2)):
        a, b = gen.choice(r, names), gen.choice(r, names)
        lines.append(["C", [a, "+", b, gen.choice(r, "+-"), "0", "*"], []])
    if gen.chance(r, 0.3):
        lines.append(["#", [" bystander"], []])
    if gen.chance(r, 0.3):
        lines.insert(0, ["H", [], [["VN", "Z", "1.0"]]])
    if gen.fair(r, 0.15):
        # a bystander segment that already carries the name a merged chain would be given by default (a_b next
        # to the chain a, b), or a name one character away from a chain member (s1 and s1L)
        chains = Graph({"version": "gfa1", "lines": lines}).chains()
        members = set(c[0] for ch in chains for c in ch)
        victims = [x for x in names if x not in members]
        if chains and victims:
            run = [c[0] for c in gen.choice(r, chains)]
            if gen.chance(r, 0.5):
                run = list(reversed(run))
            new = "_".join(run) if gen.chance(r, 0.75) else run[0] + gen.choice(r, ["L", "R", "_", "2"])
            if new not in names:
                old = gen.choice(r, victims)
                for l in lines:
                    if l[0] == "S" and l[1][0] == old:
                        l[1][0] = new
                    elif l[0] in "LC":
                        if l[1][0] == old:
                            l[1][0] = new
                        if l[1][2] == old:
                            l[1][2] = new
    if gen.fair(r, 0.08):
        # a segment (often a chain member) whose name begins or ends with the separator of merged names
        old = gen.choice(r, names)
        new = gen.choice(r, [old + "_", "_" + old, old + "__x", "(" + old + ")"])
        for l in lines:
            if l[0] == "S" and l[1][0] == old:
                l[1][0] = new
            elif l[0] in "LC":
                if l[1][0] == old:
                    l[1][0] = new
                if l[1][2] == old:
                    l[1][2] = new
    return {"version": "gfa1", "lines": lines}


def to_gfa2_graph(r, doc):
    """The same graph in GFA2 (anonymous E lines by the model's interval arithmetic; an
    unspecified overlap becomes an empty interval); some E lines are duplicated
    (identical anonymous edges are legal in GFA2)."""
    slen = {}
    lines = []
    for l in doc["lines"]:
        if l[0] == "S":
            seq = l[1][1]
            ln = [t for t in l[2] if t[0] == "LN"]
            n = len(seq) if seq != "*" else int(ln[0][2])
            slen[l[1][0]] = n
            lines.append(["S", [l[1][0], str(n), seq], [t for t in l[2] if t[0] != "LN"]])
    for l in doc["lines"]:
        if l[0] == "L":
            f, fo, t, to, ov = l[1]
            k = overlap_len(ov)
            lf, lt = slen[f], slen[t]
            fm = lambda p, n: "%d$" % p if p == n else str(p)
            b1, e1 = (lf - k, lf) if fo == "+" else (0, k)
            b2, e2 = (0, k) if to == "+" else (lt - k, lt)
            eid = [t_[2] for t_ in l[2] if t_[0] == "ID"]
            rec = ["E", [eid[0] if eid else "*", f + fo, t + to, fm(b1, lf), fm(e1, lf), fm(b2, lt), fm(e2, lt), ("%dM" % k) if k else "*"],
                   [t_ for t_ in l[2] if t_[0] != "ID"]]
            lines.append(rec)
            if not eid and gen.chance(r, 0.15):
                lines.append(["E", list(rec[1]), list(rec[2])])
        elif l[0] in ("#", "H"):
            lines.append(l if l[0] == "#" else ["H", [], [["VN", "Z", "2.0"]]])
    return {"version": "gfa2", "lines": lines}


def _merge_opts(r):
    """Options of merge_linear_paths() that must not change what the statement promises (name style, count
    arithmetic, origin tracking)."""
    if not gen.chance(r, 0.35):
        return None
    o = {}
    if gen.chance(r, 0.5):
        o["merged_name"] = "short"
    if gen.chance(r, 0.35):
        o["cut_counts"] = True
    if gen.chance(r, 0.35):
        o["enable_tracking"] = True
    return o or None


@st.composite
def st_case(draw):
    r = draw(st.randoms(use_true_random=False))
    return {"doc": build_chain_graph(r), "vlevel": gen.choice(r, [1, 1, 2, 3]), "merge_opts": _merge_opts(r),
            "order": gen.choice(r, [None, None, "edges_first", "reversed"])}


@st.composite
def st_case2(draw):
    r = draw(st.randoms(use_true_random=False))
    return {"doc": to_gfa2_graph(r, build_chain_graph(r)), "vlevel": gen.choice(r, [1, 1, 2, 3]), "merge_opts": _merge_opts(r),
            "order": gen.choice(r, [None, None, "edges_first", "reversed"])}


@st.composite
def st_case_cli(draw):
    r = draw(st.randoms(use_true_random=False))
    doc = build_chain_graph(r)
    if gen.chance(r, 0.35):
        doc = to_gfa2_graph(r, doc)
    return {"doc": doc, "vlevel": gen.choice(r, [0, 0, 1, 2, 3]), "cli": True,
            "merge_opts": {"merged_name": "short"} if gen.chance(r, 0.4) else None}


def parts(tier):
    q = tier == "quick"
    return [Part("gfa1", prop, strategy=st_case(), n=300 if q else 1500, quick_shards=2),
            Part("gfa2", prop, strategy=st_case2(), n=250 if q else 1200, quick_shards=2),
            Part("cli", prop, strategy=st_case_cli(), n=30 if q else 100, quick_shards=3,
                 note="bin/gfapy-mergelinear as a subprocess; its printed graph is judged like the result of merge_linear_paths()")]
