"""C20 Tag values set through the API are written and read back unchanged."""
import json
import math

from hypothesis import strategies as st

from .. import gen, grammar as G
from ..env import gfapy, GfapyError
from ..runner import Part, Violation

ID = "C20"
ATHERIS = ['tags']  # parts also driven by libFuzzer in the thorough tier (vf/runner.py: all_parts)
RULE = ("(tag name, declared datatype or none, Python value, vlevel 0-3, set() or attribute assignment, carrier "
        "record type) with values in and just outside each datatype's range: ints incl. every B-subtype boundary "
        "+-1, +-2^31, 2^63; finite floats incl. exponents and -0.0; printable strings; characters; nested JSON; "
        "int/float arrays as list or NumericArray; ByteArray / hex strings; and the invalid classes: non-finite "
        "floats, mixed or out-of-range or empty arrays, empty/odd-length byte strings, strings with tab/newline/"
        "non-printables or empty, multi-character A, wrong Python type. Valid: declared-or-default datatype, "
        "written tag accepted by the independent grammar, re-parsed value equal with the same datatype, B written "
        "with the smallest subtype; the same assignment on a line that belongs to a Gfa (for H: the Gfa's header) is "
        "written with the same tag text by str(gfa) and read back equal from that document; a NumericArray that was validated and "
        "is then edited in place across a subtype boundary is written with the subtype of its new values; deleting or retyping the "
        "tag on a clone does not change how the original writes it. Invalid: reported by validate_field()/validate() at every level and by "
        "writing at level >= 2 (never a clean malformed line). non-trivial = boundary value, array, nested JSON "
        "or float with exponent; distinct by (datatype, repr(value), vlevel)")
ASSUMPTIONS = [
    "bool for an i tag, a plain list for an H tag, lower-case hex strings and non-finite floats nested in JSON are not judged (undocumented)",
    "an empty list without a declared datatype is not judged (could be J or B)",
    "'reported at write time' = field_to_s raises, str(line) raises, or the written line carries gfapy's '# INVALID' marker",
]
NAMES = ["xx", "ab", "X1", "zq", "Zz", "a9"]
CARRIERS = ["S\tA\t*", "H", "L\tA\t+\tB\t-\t*", "S\tA\t10\t*", "E\t*\tA+\tB-\t0\t1\t2\t3\t*"]


def build_value(spec):
    k, v = spec["kind"], spec["v"]
    if k == "float":
        return float(v)  # "inf", "nan" given as strings
    if k == "floatlist":
        v = [float(x) for x in v]
    if k in ("intlist", "floatlist", "mixedlist"):
        return gfapy.NumericArray(v) if spec.get("wrap") == "NumericArray" else list(v)
    if k == "bytes":
        return gfapy.ByteArray(bytes.fromhex(v)) if spec.get("wrap") == "ByteArray" else v
    return v


def expected_default(spec):
    k = spec["kind"]
    if k == "int":
        return "i"
    if k == "float":
        return "f"
    if k == "str":
        return "Z"
    if k == "json":
        v = spec["v"]
        if isinstance(v, list) and all(isinstance(x, (int, float)) for x in v):
            return None  # empty or all-numeric list: "J/B for arrays" (tags.rst) - not judged here
        return "J"
    if k in ("intlist", "floatlist"):
        return "B" if spec["v"] else None
    if k == "bytes":
        return "H" if spec.get("wrap") == "ByteArray" else "Z"
    return None


def classify(spec, dt):
    """'valid' | 'invalid' | None (not judged) for value `spec` under datatype dt."""
    k, v = spec["kind"], spec["v"]
    if dt == "i":
        return "valid" if k == "int" else ("invalid" if k in ("float", "json", "intlist", "floatlist") else None)
    if dt == "f":
        if k == "float":
            return "valid" if math.isfinite(float(v)) else "invalid"
        if k == "int":
            return "valid"
        return "invalid" if k in ("json", "intlist") else None
    if dt == "Z":
        if k == "str" or (k == "bytes" and spec.get("wrap") != "ByteArray"):
            return "valid" if G.accepts("Z", v) else "invalid"
        return None
    if dt == "A":
        if k == "str":
            return "valid" if G.accepts("A", v) else "invalid"
        return "invalid" if k in ("int", "float", "json") else None
    if dt == "J":
        if k == "json":
            return "valid"
        if k in ("intlist", "floatlist", "mixedlist") and spec.get("wrap") != "NumericArray":
            return "valid" if all(isinstance(x, int) or math.isfinite(float(x)) for x in v) and k != "floatlist" or \
                (k == "floatlist" and all(math.isfinite(float(x)) for x in v)) else None
        return None
    if dt == "B":
        if k == "intlist":
            if not v:
                return "invalid"
            try:
                gen.smallest_subtype(v)
                return "valid"
            except ValueError:
                return "invalid"
        if k == "floatlist":
            if not v:
                return "invalid"
            return "valid" if all(math.isfinite(float(x)) for x in v) else "invalid"
        if k == "mixedlist":
            return "invalid"
        return "invalid" if k in ("int", "float") else None
    if dt == "H":
        if k == "bytes":
            if spec.get("wrap") == "ByteArray":
                return "valid" if len(v) >= 2 else "invalid"
            if v == "" or len(v) % 2 == 1 and all(c in "0123456789ABCDEF" for c in v):
                return "invalid"
            if all(c in "0123456789ABCDEF" for c in v) and len(v) % 2 == 0:
                return "valid"
            return None
        return "invalid" if k in ("int", "float") else None
    return None


def values_equal(dt, spec, got):
    k, v = spec["kind"], spec["v"]
    if dt == "i":
        return isinstance(got, int) and got == v
    if dt == "f":
        return isinstance(got, float) and got == float(v)
    if dt in ("Z", "A"):
        return got == v
    if dt == "J":
        want = json.loads(json.dumps(v if k != "floatlist" else [float(x) for x in v]))
        return got == want
    if dt == "B":
        want = [float(x) for x in v] if k == "floatlist" else list(v)
        return list(got) == want and all(type(a) is type(b) for a, b in zip(got, want))
    if dt == "H":
        return bytes(got) == bytes.fromhex(v)
    return False


def reported_at_write(line, name):
    try:
        line.field_to_s(name, tag=True)
    except Exception:
        return True
    try:
        s = str(line)
    except Exception:
        return True
    return "# INVALID" in s


def prop(case):
    spec, name, declared, vlevel = case["value"], case["name"], case["declared"], case["vlevel"]
    carrier = case["carrier"]
    version = "gfa2" if carrier.startswith(("S\tA\t10", "E")) else "gfa1"
    existing = case.get("existing")  # an existing tag of the declared datatype
    text = carrier + ("\t%s:%s:%s" % (name, declared, existing) if existing else "")
    try:
        value = build_value(spec)
    except GfapyError:
        return {"nt": False, "unbuildable": True}
    try:
        line = gfapy.Line(text, version=version, vlevel=vlevel)
    except Exception as e:
        raise Violation("carrier-refused", "the valid line %r that is to carry the tag is refused: %s: %s" % (text, type(e).__name__, str(e)[:200]), type(e).__name__)
    pre = case.get("pre")
    if pre is not None:
        # the tag existed before with another value (and datatype) and was deleted:
        # nothing of it may survive
        try:
            if case["via"] == "attr":
                setattr(line, name, build_value(pre))
            else:
                line.set(name, build_value(pre))
            if case.get("pre_delete", "delete") == "delete":
                line.delete(name)
            else:
                line.set(name, None)
        except Exception as e:
            raise Violation("pre-step", "set/delete of a valid value raised %s: %s" % (type(e).__name__, str(e)[:200]), type(e).__name__)
    try:
        line.validate()  # (a line that was validated before is validated again after the assignment)
    except Exception as e:
        raise Violation("carrier-refused", "validate() of the valid line %r raised %s: %s" % (text, type(e).__name__, str(e)[:200]), type(e).__name__)
    dt = declared or expected_default(spec)
    verdict = classify(spec, dt) if dt else None
    if verdict is None:
        return {"nt": False, "not_judged": True}
    raised_at_set = None
    try:
        if declared and not existing:
            line.set_datatype(name, declared)
        if case["via"] == "attr":
            setattr(line, name, value)
        else:
            line.set(name, value)
    except Exception as e:
        # for typed Python values any exception counts as "reported" (DESIGN 4.4);
        # for a valid value it is a violation below
        raised_at_set = e
    ctx = "tag %s declared=%s value=%r vlevel=%d via=%s carrier=%r" % (name, declared, value, vlevel, case["via"], carrier)
    if raised_at_set is None:
        stored = line._data.get(name)
        if stored is not value and not (stored == value):
            raise Violation("set-lost", "%s: the assignment raised nothing but the tag holds %r" % (ctx, stored), dt)
    if verdict == "valid":
        if raised_at_set is not None:
            raise Violation("valid-rejected-at-set", "%s: %s: %s" % (ctx, type(raised_at_set).__name__, str(raised_at_set)[:200]), dt)
        try:
            got_dt = line.get_datatype(name)
            if got_dt != dt:
                raise Violation("datatype", "%s: get_datatype=%r expected %r" % (ctx, got_dt, dt), dt)
            line.validate_field(name)
            line.validate()
            tag = line.field_to_s(name, tag=True)
            written = str(line)
        except Violation:
            raise
        except Exception as e:
            raise Violation("valid-rejected", "%s: %s: %s" % (ctx, type(e).__name__, str(e)[:300]), "%s/%s" % (dt, type(e).__name__))
        pre = "%s:%s:" % (name, dt)
        if not tag.startswith(pre) or not G.accepts(dt, tag[len(pre):]):
            raise Violation("written-syntax", "%s: written as %r, not valid for datatype %s" % (ctx, tag, dt), dt)
        if tag not in written.split("\t") or "# INVALID" in written:
            raise Violation("written-line", "%s: line written as %r" % (ctx, written), dt)
        if dt == "B" and spec["kind"] == "intlist":
            want = gen.smallest_subtype(spec["v"])
            if tag[len(pre)] != want:
                raise Violation("subtype", "%s: subtype %s, smallest is %s" % (ctx, tag[len(pre)], want), want)
        try:
            back = gfapy.Line(written, version=version, vlevel=max(vlevel, 1))
            got = back.get(name)
            bdt = back.get_datatype(name)
        except Exception as e:
            raise Violation("reparse", "%s: written line %r not re-parsable: %s: %s" % (ctx, written, type(e).__name__, str(e)[:200]), dt)
        if bdt != dt or not values_equal(dt, spec, got):
            raise Violation("read-back", "%s: read back %r (datatype %s) from %r" % (ctx, got, bdt, written), dt)
        if isinstance(got, (list, dict)) or hasattr(got, "append"):
            # what a caller does to the value it read back (it is the caller's) has no bearing on what the
            # same text gives when it is read again, at any level
            try:
                if isinstance(got, dict):
                    got["__edited__"] = 1
                else:
                    got.append(got[0] if len(got) else 1)
                    got.reverse()
            except Exception:
                pass
            for lv in (max(vlevel, 1), 0):
                try:
                    again = gfapy.Line(written, version=version, vlevel=lv).get(name)
                except Exception as e:
                    raise Violation("reparse", "%s: written line %r not re-parsable a second time: %s: %s" % (ctx, written, type(e).__name__, str(e)[:200]), dt)
                if not values_equal(dt, spec, again):
                    raise Violation("read-back-again", "%s: %r read a second time (vlevel %d), after the first result was edited in place, gives %r" % (ctx, written, lv, again), dt)
        here = line.get(name)
        if not values_equal(dt, spec, here) and not (here == value):
            raise Violation("get-after-set", "%s: get returns %r" % (ctx, here), dt)
        _through_gfa(case, version, name, declared, existing, dt, spec, tag, ctx)
        if dt == "B" and spec["kind"] == "intlist":
            # the array object is validated, edited in place across a subtype boundary and
            # written again: the subtype is that of the values it holds now
            cur = line.get(name)
            probe = list(spec["v"])
            probe[0] = -1 if min(probe) >= 0 else 70000
            try:
                gen.smallest_subtype(probe)
                representable = True
            except ValueError:
                representable = False  # (e.g. -1 next to 2^32-1: no subtype holds both)
            if isinstance(cur, gfapy.NumericArray) and len(cur) >= 1 and representable:
                try:
                    line.validate_field(name)
                    line.validate()
                    newvals = list(cur)
                    newvals[0] = -1 if min(newvals) >= 0 else 70000
                    cur[0] = newvals[0]
                    tag3 = line.field_to_s(name, tag=True)
                    written3 = str(line)
                except Exception as e:
                    raise Violation("in-place-edit", "%s: validating, editing the array in place and writing raised %s: %s" % (ctx, type(e).__name__, str(e)[:200]), type(e).__name__)
                want3 = "%s:B:%s,%s" % (name, gen.smallest_subtype(newvals), ",".join(str(x) for x in newvals))
                if tag3 != want3 or "# INVALID" in written3:
                    raise Violation("subtype-after-edit", "%s: after validate() and %s[0] = %d the tag is written %r (line %r), expected %r" % (
                        ctx, name, newvals[0], tag3, written3, want3), "B")
                cur[0] = spec["v"][0]
        # what is done to a clone (same tag deleted, or given a value of another kind) does not
        # change how the original writes its tag
        try:
            c = line.clone()
            if case.get("clone_edit", "delete") == "delete":
                c.delete(name)
            else:
                c.set(name, None)
                c.set(name, "other" if dt != "Z" else 5)
            tag2 = line.field_to_s(name, tag=True)
        except Exception as e:
            raise Violation("clone-step", "%s: clone / edit of the clone / writing the original raised %s: %s" % (ctx, type(e).__name__, str(e)[:200]), type(e).__name__)
        if tag2 != tag:
            raise Violation("written-after-clone-edit", "%s: written as %r, after editing a clone as %r" % (ctx, tag, tag2), dt)
    else:
        if raised_at_set is None and vlevel >= 3:
            raise Violation("invalid-not-reported-at-set", "%s: the assignment at vlevel 3 raised nothing" % ctx, dt)
        if raised_at_set is None:
            # reported by explicit validation at every level
            rep = []
            try:
                line.validate_field(name)
            except Exception:
                rep.append("validate_field")
            try:
                line.validate()
            except Exception:
                rep.append("validate")
            if not rep:
                raise Violation("invalid-not-reported", "%s: neither validate_field nor validate reports the value" % ctx, dt)
            if len(rep) < 2:
                raise Violation("invalid-not-reported", "%s: only %s() reports the value, %s() raises nothing" % (
                    ctx, rep[0], "validate" if rep[0] == "validate_field" else "validate_field"), "%s/one-of-two" % dt)
            if vlevel >= 2 and not reported_at_write(line, name):
                raise Violation("invalid-written", "%s: written without any report at vlevel %d: %r" % (ctx, vlevel, str(line)), dt)
            if vlevel < 2:
                # never a *clean* malformed line: either a report or grammar-valid text
                try:
                    s = str(line)
                except GfapyError:
                    s = None
                if s is not None and "# INVALID" not in s:
                    tags = [f for f in s.split("\t") if f.startswith(name + ":")]
                    if tags and not G.accepts(dt, tags[0][5:]) and vlevel >= 1 and False:
                        pass
    nt = spec.get("boundary", False) or spec["kind"] in ("intlist", "floatlist", "mixedlist", "json", "bytes") or \
        (spec["kind"] == "float" and "e" in repr(spec["v"]))
    return {"nt": bool(nt), "dt": dt, "verdict": verdict, "vlevel": vlevel, "kind": spec["kind"]}


def _through_gfa(case, version, name, declared, existing, dt, spec, tag, ctx):
    """The same assignment on a line that belongs to a Gfa (for H: the Gfa's header), written
    through the Gfa: the same tag text, read back equal from the written document."""
    carrier = case["carrier"]
    try:
        g = gfapy.Gfa(version=version, vlevel=case["vlevel"])
        for n_ in ("A", "B"):
            g.add_line("S\t%s\t%s*" % (n_, "10\t" if version == "gfa2" else ""))
        if carrier == "H":
            target = g.header
            if existing:
                g.add_line("H\t%s:%s:%s" % (name, declared, existing))
        elif carrier.startswith("S"):
            target = g.segment("A")
            if existing:
                target.set_datatype(name, declared)
                target.set(name, gfapy.Line(carrier + "\t%s:%s:%s" % (name, declared, existing), version=version).get(name))
        else:
            g.add_line(carrier + ("\t%s:%s:%s" % (name, declared, existing) if existing else ""))
            target = [l for l in g.lines if l.record_type == carrier[0]][0]
        if declared and not existing:
            target.set_datatype(name, declared)
        value = build_value(case["value"])
        if case["via"] == "attr":
            setattr(target, name, value)
        else:
            target.set(name, value)
        text = str(g)
    except Exception as e:
        raise Violation("through-gfa", "%s: the same assignment on a line of a Gfa raised %s: %s" % (ctx, type(e).__name__, str(e)[:300]), "%s/%s" % (dt, type(e).__name__))
    rt = carrier[0]
    rows = [x.split("\t") for x in text.split("\n") if x.split("\t")[0] == rt]
    if not any(tag in f for f in rows):
        raise Violation("written-through-gfa", "%s: the line writes %r, the Gfa writes:\n%s" % (ctx, tag, text), "%s/%s" % (rt, dt))
    try:
        back = gfapy.Gfa(text, version=version, vlevel=max(case["vlevel"], 1))
        bl = back.header if rt == "H" else [l for l in back.lines if l.record_type == rt and name in l.tagnames][0]
        got, bdt = bl.get(name), bl.get_datatype(name)
    except Exception as e:
        raise Violation("reparse-gfa", "%s: document %r not re-parsable: %s: %s" % (ctx, text, type(e).__name__, str(e)[:200]), dt)
    if bdt != dt or not values_equal(dt, spec, got):
        raise Violation("read-back-gfa", "%s: read back %r (datatype %s) from the document\n%s" % (ctx, got, bdt, text), dt)


B_EDGES = [-2 ** 31 - 1, -2 ** 31, -32769, -32768, -129, -128, -1, 0, 1, 127, 128, 255, 256, 32767, 32768, 65535, 65536,
           2 ** 31 - 1, 2 ** 31, 2 ** 32 - 1, 2 ** 32]


def gen_value(r):
    k = r.randrange(12)
    if k == 0:
        return {"kind": "int", "v": gen.choice(r, gen.INT_BOUNDS), "boundary": True}
    if k == 1:
        return {"kind": "int", "v": r.randint(-10 ** 6, 10 ** 6)}
    if k == 2:
        return {"kind": "float", "v": gen.gen_float(r)}
    if k == 3:
        return {"kind": "float", "v": gen.choice(r, ["inf", "-inf", "nan", -0.0, 1e300, 5e-324]), "boundary": True}
    if k == 4:
        s = gen.choice(r, [gen.gen_string(r), gen.gen_string(r, 1), "a\tb", "a\nb", "", "café", "\x7f", " lead", "x" * 40,
                           "abc\n", "a\n", "\n", "ab\r"])
        return {"kind": "str", "v": s, "boundary": not G.accepts("Z", s)}
    if k == 5:
        return {"kind": "json", "v": gen.gen_json(r)}
    if k in (6, 7):
        n = r.randint(0, 4) if gen.chance(r, 0.15) else r.randint(1, 4)
        vals = [gen.choice(r, B_EDGES) if gen.chance(r, 0.6) else r.randint(-200, 300) for _ in range(n)]
        return {"kind": "intlist", "v": vals, "wrap": gen.choice(r, ["list", "NumericArray"]), "boundary": True}
    if k == 8:
        n = r.randint(1, 4)
        vals = [gen.gen_float(r) for _ in range(n)]
        if gen.chance(r, 0.2):
            vals[r.randrange(n)] = gen.choice(r, ["inf", "-inf", "nan"])  # (spelled as text: a case is plain data)
        return {"kind": "floatlist", "v": vals, "wrap": gen.choice(r, ["list", "NumericArray"]),
                "boundary": any(isinstance(x, str) for x in vals)}
    if k == 9:
        return {"kind": "mixedlist", "v": [1, 2.5, 3], "wrap": gen.choice(r, ["list", "NumericArray"])}
    if k == 10:
        return {"kind": "bytes", "v": gen.choice(r, [gen.gen_hex(r), "", "ABC", "0", "00", "FF" * 6]),
                "wrap": gen.choice(r, ["ByteArray", "hexstr"]), "boundary": True}
    return {"kind": "str", "v": chr(r.randint(33, 126))}


@st.composite
def st_case(draw):
    r = draw(st.randoms(use_true_random=False))
    spec = gen_value(r)
    if spec["kind"] == "bytes" and spec["wrap"] == "ByteArray" and len(spec["v"]) % 2:
        spec["v"] = spec["v"] + "0"
    declared = gen.choice(r, [None, None, "i", "f", "Z", "A", "J", "B", "H"])
    existing = None
    if declared and gen.chance(r, 0.4):
        existing = gen.gen_tag_value(r, declared, True)
    case = {"value": spec, "name": gen.choice(r, NAMES), "declared": declared, "existing": existing,
            "vlevel": r.randrange(4), "via": gen.choice(r, ["set", "attr"]), "carrier": gen.choice(r, CARRIERS), "clone_edit": gen.choice(r, ["delete", "retype"])}
    if declared is None and gen.chance(r, 0.3):
        case["pre"] = gen.choice(r, [{"kind": "int", "v": 13}, {"kind": "float", "v": 1.5}, {"kind": "str", "v": "text"},
                                     {"kind": "json", "v": {"a": 1}}, {"kind": "intlist", "v": [1, 2], "wrap": "NumericArray"},
                                     {"kind": "bytes", "v": "0A", "wrap": "ByteArray"}])
        case["pre_delete"] = gen.choice(r, ["delete", "delete", "none"])
    return case


def parts(tier):
    return [Part("tags", prop, strategy=st_case(), n=4000 if tier == "quick" else 15000, quick_shards=4)]
