"""C16 Connected components and topology counts agree with the graph."""
from hypothesis import strategies as st

from .. import gen, grammar as G, history as H, model as M, observe as O
from ..env import gfapy, GfapyError
from ..runner import Part, Violation

ID = "C16"
ATHERIS = ['graphs', 'small-components']  # parts also driven by libFuzzer in the thorough tier (vf/runner.py: all_parts)
RULE = ("part 'graphs': generated GFA1/GFA2 documents (isolated segments, trees, cycles, self-links, hairpins, "
        "parallel edges, containment-only and internal-only relations); part 'histories': the same after a "
        "model-based mutation history (checked after every step). Oracle: union-find over the model's dovetails "
        "vs connected_components() (partition equality, every segment exactly once) and "
        "segment_connected_component(s) for every s (by name and by instance); n_dovetails / n_containments / "
        "n_internals / n_dead_ends vs counts from the text. non-trivial (graphs) = >= 2 components of which one has "
        ">= 2 segments, and >= 1 containment or internal edge between two different components; (histories) = a "
        "removal or rename at a closed state with >= 2 components one of which has >= 2 segments; part "
        "'small-components': remove_small_components(minlen) with minlen on / next to the total length of a component must "
        "remove exactly the segments (with their documented dependants) of the components whose total length is "
        "below minlen - content equal to the model's edited text, topology re-checked, a second call a no-op; "
        "part 'long-chains': unbranched chains of thousands of segments (one component, found from both ends and the middle). "
        "non-trivial there = something removed and something kept, >= 2 components; distinct by hash")
ASSUMPTIONS = ["documents are valid (C01); history steps are legal (C02)",
               "part 'small-components': every segment has a known length (sequence, LN or slen); minlen is drawn around the component totals",
               "while identifiers or path links are pending (forward references) only the partition property is checked, not equality with the model"]


def check_topology(gfa, model, ctx=""):
    want = model.components()
    try:
        cc = gfa.connected_components()
    except Exception as e:
        raise Violation("cc-raised", "connected_components raised %s: %s\n%s" % (type(e).__name__, str(e)[:300], model.text()), type(e).__name__)
    got = []
    seen = []
    for comp in cc:
        names = [s.name for s in comp if not s.virtual]
        if len(names) != len(set(names)):
            raise Violation("cc-duplicate", "a component lists a segment twice: %s\n%s" % (names, model.text()))
        seen.extend(names)
        if names:
            got.append(frozenset(names))
    if len(seen) != len(set(seen)):
        raise Violation("cc-not-partition", "a segment is in two components: %s\n%s" % (sorted(seen), model.text()))
    pending = not model.is_closed()
    if not pending:
        if set(got) != want:
            raise Violation("cc", "%scomponents %s, expected %s\n%s" % (ctx, sorted(map(sorted, got)), sorted(map(sorted, want)), model.text()))
        for comp in want:
            for sn in comp:
                for arg in (sn, gfa.segment(sn)):
                    try:
                        c = gfa.segment_connected_component(arg)
                    except Exception as e:
                        raise Violation("scc-raised", "segment_connected_component(%r) raised %s: %s\n%s" % (sn, type(e).__name__, str(e)[:300], model.text()), type(e).__name__)
                    names = sorted(s.name for s in c)
                    if names != sorted(comp):
                        raise Violation("scc", "%ssegment_connected_component(%s) = %s, expected %s\n%s" % (ctx, sn, names, sorted(comp), model.text()))
        c = model.counts()
        gotc = {"dovetails": gfa.n_dovetails, "containments": gfa.n_containments,
                "internals": gfa.n_internals, "dead_ends": gfa.n_dead_ends}
        if gotc != c:
            raise Violation("counts", "%scounts %s, expected %s\n%s" % (ctx, gotc, c, model.text()),
                            ",".join(k for k in c if c[k] != gotc[k]))
    return want


def _nt(model, comps):
    if len(comps) < 2 or not any(len(c) >= 2 for c in comps):
        return False
    where = {s: c for c in comps for s in c}
    for r in model.recs:
        a = b = None
        if model.version == "gfa1" and r.rt == "C":
            a, b = r.pos[0], r.pos[2]
        elif model.version == "gfa2" and r.rt == "E" and M.classify_edge(r)[0] in "CI":
            a, b = r.pos[1][:-1], r.pos[2][:-1]
        if a in where and b in where and where[a] != where[b]:
            return True
    return False


def prop_graph(case):
    doc = case["doc"]
    model = M.ModelDoc.from_doc(doc)
    lines = gen.doc_lines(doc)
    try:
        g = gfapy.Gfa(lines, version=doc["version"], vlevel=1)
    except Exception as e:
        raise Violation("load", "valid document not loaded: %s: %s\n%s" % (type(e).__name__, str(e)[:300], "\n".join(lines)), type(e).__name__)
    comps = check_topology(g, model)
    return {"nt": _nt(model, comps), "version": doc["version"], "n_components": min(len(comps), 4), "near_names": case.get("near_names")}


def prop_history(case):
    version = case["version"]
    run = H.Runner(version, vlevel=1)
    nt = False
    for step, op in enumerate(case["ops"]):
        try:
            run.apply(op)
        except Exception as e:
            raise Violation("step", "legal step %d %r raised %s: %s\n%s" % (step, op, type(e).__name__, str(e)[:300], run.model.text()), "%s/%s" % (op[0], type(e).__name__))
        comps = check_topology(run.gfa, run.model, "after step %d %r: " % (step, op))
        if op[0] in ("rm", "rm_i", "disc", "rename") and len(comps) >= 2 and any(len(c) >= 2 for c in comps) \
                and run.model.is_closed():
            nt = True
    return {"nt": nt, "version": version}


def _seg_len(rec, version):
    if version == "gfa2":
        return int(rec.pos[1])
    t = rec.tag("LN")
    if t:
        return int(t[1])
    return None if rec.pos[1] == "*" else len(rec.pos[1])


def prop_small(case):
    doc = case["doc"]
    version = doc["version"]
    model = M.ModelDoc.from_doc(doc)
    lines = gen.doc_lines(doc)
    lens = {r.pos[0]: _seg_len(r, version) for r in model.segments()}
    if any(v is None for v in lens.values()) or not model.is_closed():
        return {"nt": False, "skipped": True}
    try:
        g = gfapy.Gfa(lines, version=version, vlevel=case["vlevel"])
    except Exception as e:
        raise Violation("load", "valid document not loaded: %s: %s\n%s" % (type(e).__name__, str(e)[:300], "\n".join(lines)), type(e).__name__)
    comps = sorted(model.components(), key=sorted)
    totals = sorted(set(sum(lens[s] for s in c) for c in comps))
    # minlen drawn around the totals: case["pick"] selects a total, case["delta"] in {-1, 0, 1}
    if not totals:
        return {"nt": False}
    minlen = totals[case["pick"] % len(totals)] + case["delta"]
    doomed = [c for c in comps if sum(lens[s] for s in c) < minlen]
    for c in doomed:
        for s in sorted(c):
            rec = model.by_name(s)
            if rec is not None and rec.rt == "S":
                model.remove(rec)
    try:
        g.remove_small_components(minlen)
    except Exception as e:
        raise Violation("rsc-raised", "remove_small_components(%d) raised %s: %s\n%s" % (minlen, type(e).__name__, str(e)[:300], "\n".join(lines)), type(e).__name__)
    real = "\n".join(O.line_text(l) for l in g.lines if not l.virtual)
    try:
        got = G.canon_doc(real, version)
    except Exception as e:
        raise Violation("unparsable", "after remove_small_components(%d): %s\n%s" % (minlen, e, real))
    want = G.canon_doc(model.text(), version)
    if got != want:
        raise Violation("rsc-content", "remove_small_components(%d): content differs from the document without the components below minlen (totals %s): %s\n-- input --\n%s\n-- expected --\n%s\n-- gfa --\n%s" % (
            minlen, totals, G.counter_diff(want, got), "\n".join(lines), model.text(), real), "removed-too-%s" % ("much" if sum(got.values()) < sum(want.values()) else "little"))
    problems = O.invariants(g)
    if problems:
        raise Violation("rsc-invariants", "after remove_small_components(%d): %s\n%s" % (minlen, problems[:3], "\n".join(lines)))
    if model.is_closed():
        check_topology(g, model, "after remove_small_components(%d): " % minlen)
    snap = str(g)
    g.remove_small_components(minlen)
    if str(g) != snap:
        raise Violation("rsc-idempotent", "a second remove_small_components(%d) changed the Gfa\n%s" % (minlen, "\n".join(lines)))
    return {"nt": len(comps) >= 2 and bool(doomed) and len(doomed) < len(comps), "version": version,
            "removed_components": min(len(doomed), 3), "delta": case["delta"]}


@st.composite
def st_small(draw):
    case = draw(st_graph())
    r = draw(st.randoms(use_true_random=False))
    case["pick"] = r.randint(0, 7)
    case["delta"] = gen.choice(r, [0, 1, 1, -1])
    case["vlevel"] = gen.choice(r, [1, 1, 0, 2, 3])
    return case


@st.composite
def st_graph(draw):
    r = draw(st.randoms(use_true_random=False))
    v = gen.choice(r, ["gfa1", "gfa2"])
    o = {"both_forms": False, "headers": False, "comments": False, "nseg": (2, 7), "tags": False,
         "paths": gen.chance(r, 0.3), "groups": gen.chance(r, 0.3), "custom": False, "fragments": False}
    doc = gen.build_gfa1(r, o) if v == "gfa1" else gen.build_gfa2(r, o)
    if v == "gfa2":
        # bias towards dovetails so that components are not all singletons
        segs = [l[1][0] for l in doc["lines"] if l[0] == "S"]
        for _ in range(r.randint(0, len(segs))):
            a, b = gen.choice(r, segs), gen.choice(r, segs)
            o1, o2 = gen.choice(r, "+-"), gen.choice(r, "+-")
            ka, kb = gen.choice(r, [("sfx", "pfx"), ("pfx", "sfx")]) if o1 == o2 else gen.choice(r, [("pfx", "pfx"), ("sfx", "sfx")])
            b1, e1, _ = gen.interval(r, doc["slen"][a], ka if doc["slen"][a] > 1 else ("sfx0" if ka == "sfx" else "pfx0"))
            b2, e2, _ = gen.interval(r, doc["slen"][b], kb if doc["slen"][b] > 1 else ("sfx0" if kb == "sfx" else "pfx0"))
            doc["lines"].append(["E", ["*", a + o1, b + o2, b1, e1, b2, e2, "*"], []])
    doc = gen.near_names(r, {"version": v, "lines": doc["lines"]}, p=0.2)
    return {"doc": {"version": v, "lines": doc["lines"]}, "near_names": bool(doc.get("near_names"))}


def st_hist(version):
    @st.composite
    def s(draw):
        r = draw(st.randoms(use_true_random=False))
        return H.gen_history(r, version, {"p_rm": 0.3, "p_rename": 0.1, "load": 0.8, "steps": (4, 18), "p_readd": 0.12, "circular_first": 0.25})
    return s()


def prop_long(case):
    """A long unbranched chain (what an assembly graph mostly consists of): one component, found from either end
    and from the middle; two dead ends."""
    n, version, closed = case["n"], case["version"], case["closed"]
    names = ["c%d" % i for i in range(n)]
    lines = []
    for i, s in enumerate(names):
        lines.append("S\t%s\t*\tLN:i:10" % s if version == "gfa1" else "S\t%s\t10\t*" % s)
    pairs = [(names[i], names[i + 1]) for i in range(n - 1)] + ([(names[-1], names[0])] if closed else [])
    for a, b in pairs:
        lines.append("L\t%s\t+\t%s\t+\t*" % (a, b) if version == "gfa1" else "E\t*\t%s+\t%s+\t8\t10$\t0\t2\t*" % (a, b))
    lines.append("S\tlonely\t*\tLN:i:10" if version == "gfa1" else "S\tlonely\t10\t*")
    g = gfapy.Gfa(lines, version=version, vlevel=0)
    ctx = "chain of %d segments (%s, %s)" % (n, version, "closed" if closed else "open")
    try:
        cc = g.connected_components()
    except Exception as e:
        raise Violation("cc-raised", "%s: connected_components raised %s: %s" % (ctx, type(e).__name__, str(e)[:200]), type(e).__name__)
    sizes = sorted(len(c) for c in cc)
    if sizes != [1, n]:
        raise Violation("cc", "%s: component sizes %s, expected [1, %d]" % (ctx, sizes[:5], n))
    for start in (names[0], names[n // 2], names[-1]):
        try:
            c = g.segment_connected_component(start)
        except Exception as e:
            raise Violation("scc-raised", "%s: segment_connected_component(%s) raised %s" % (ctx, start, type(e).__name__), type(e).__name__)
        if len(c) != n:
            raise Violation("scc", "%s: segment_connected_component(%s) has %d segments" % (ctx, start, len(c)))
    want_dead = 2 + (0 if closed else 2)
    if g.n_dead_ends != want_dead or g.n_dovetails != len(pairs):
        raise Violation("counts", "%s: n_dead_ends %d (expected %d), n_dovetails %d (expected %d)" % (ctx, g.n_dead_ends, want_dead, g.n_dovetails, len(pairs)))
    return {"nt": True, "long_chain": n}


def enum_long(tier):
    def e(shard, nshards):
        cases = [{"n": n, "version": v, "closed": c} for n in ((1500, 4000) if tier == "quick" else (1500, 4000, 12000))
                 for v in ("gfa1", "gfa2") for c in (False, True)]
        for i, c in enumerate(cases):
            if i % nshards == shard:
                yield c
    return e


def parts(tier):
    q = tier == "quick"
    return [Part("graphs", prop_graph, strategy=st_graph(), n=400 if q else 2000, quick_shards=2),
            Part("long-chains", prop_long, enum=enum_long(tier), quick_shards=4,
                 note="chains of 1500 .. 12000 segments, open and closed, both versions"),
            Part("small-components", prop_small, strategy=st_small(), n=300 if q else 1500, quick_shards=2),
            Part("hist-gfa1", prop_history, strategy=st_hist("gfa1"), n=300 if q else 800, quick_shards=2),
            Part("hist-gfa2", prop_history, strategy=st_hist("gfa2"), n=300 if q else 800, quick_shards=2)]
