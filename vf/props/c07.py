"""C07 Only gfapy.Error exceptions escape, whatever the input."""
import glob
import os
import shutil
import signal
import tempfile
import traceback

from hypothesis import strategies as st

from .. import gen
from .. import grammar as G
from ..env import gfapy, GfapyError, ROOT
from ..runner import Part, Violation, Inconclusive

ID = "C07"
RULE = ("part 'text': arbitrary strings over an alphabet rich in tab, newline, CR, ':', '*', '$', '+', '-', ',', "
        "blanks, digits, record-type letters, CIGAR letters, JSON punctuation, non-ASCII and control characters, "
        "offered as a line (gfapy.Line) and as a document (Gfa from string / list / file); part 'mutants': 1-3 "
        "point mutations (character, field, line, record-type and tag-type level) of generated valid documents "
        "and of the repository's tests/testdata files; part 'api': arbitrary strings as identifiers, field names, "
        "datatypes and values passed to the public API of a populated Gfa and of its lines; part 'cli': bin/gfapy-validate "
        "as a subprocess on files holding mutated documents (exit status 0 or 1, no traceback, same verdict as "
        "Gfa.from_file().validate() in process); all x vlevel 0-3 x "
        "version x dialect. Oracle: every call returns or raises gfapy.Error; anything else (incl. RecursionError) "
        "is a leak, bucketed by (exception class, innermost gfapy frame); a call still running after 30 s is "
        "re-run alone with 120 s and then reported as a hang. After a successful load the result is written, "
        "validated and every field read. non-trivial = the input got past record-type dispatch (it produced a "
        "line, or was refused by a gfapy.Error raised below the dispatch level); distinct by input hash")
ASSUMPTIONS = [
    "only strings are offered (the property quantifies over strings); typed Python values are C18/C20",
    "the termination claim can only be refuted, not established: the watchdog turns a > 120 s call into a violation",
]

ALPHA = "\t\t\t\n: *$+-,;01259HSLCPEFGOUX#MIDNacgtxyZzABJf[]{}\"'.=_\r\x00\x7fé５²٣~!\udcff"
# (the last one is a lone surrogate: written to a file it becomes the byte 0xFF, i.e. a file that is not valid UTF-8)
COLLECT = bool(os.environ.get("VERIF_C07_COLLECT"))


GROUP_EDIT_FUNCS = {"_add_item_to_connected_group", "_add_item_to_unconnected_group", "_rm_item_from_unconnected_group",
                    "rm_first_item", "rm_last_item", "append_item", "prepend_item"}


MISSING_HELPERS = ("'prepare_and_check_ref'", "'update_reference'", "'compute_induced_set'",
                   "'list' object has no attribute 'delete'", "'str' object has no attribute 'line'")


def leak_signature(e):
    tb = traceback.extract_tb(e.__traceback__)
    where = "?"
    for f in reversed(tb):
        if os.sep + "gfapy" + os.sep in f.filename:
            where = "%s:%s" % (os.path.basename(f.filename), f.name)
            break
    if isinstance(e, AttributeError) and any(m in str(e) for m in MISSING_HELPERS) and any(
            f.name in GROUP_EDIT_FUNCS and os.sep + os.path.join("line", "group") + os.sep in f.filename for f in tb):
        # known finding D87: the item-editing methods of U/O lines call helpers that do not
        # exist (one root cause, several call sites)
        where = "group_item_editing"
    return "%s@%s" % (type(e).__name__, where)


class Guard:
    """Runs calls; records leaks."""

    def __init__(self, ctx):
        self.ctx = ctx
        self.leaks = []
        self.reached = False

    def call(self, what, fn, *a, **kw):
        try:
            r = fn(*a, **kw)
            self.reached = True
            return ("ok", r)
        except GfapyError as e:
            if not isinstance(e, (gfapy.VersionError,)) or True:
                # refused below dispatch level counts as reaching field logic
                tb = traceback.extract_tb(e.__traceback__)
                if any("field" in f.filename or "construction" in f.filename or "connection" in f.filename
                       for f in tb):
                    self.reached = True
            return ("err", e)
        except Inconclusive:
            # re-run alone with a long timeout
            signal.setitimer(signal.ITIMER_REAL, 120)
            try:
                fn(*a, **kw)
            except Inconclusive:
                raise Violation("hang", "%s: %s did not terminate within 120 s" % (self.ctx, what), what)
            except BaseException:
                pass
            finally:
                signal.setitimer(signal.ITIMER_REAL, 30)
            return ("err", None)
        except RecursionError as e:
            # (signature without the arguments of the call: one root cause, whatever the identifier)
            self.leaks.append(("RecursionError@%s" % what.split("(")[0], what, e))
            return ("leak", e)
        except Exception as e:
            self.leaks.append((leak_signature(e), what, e))
            return ("leak", e)

    def finish(self, labels):
        if self.leaks:
            if COLLECT:
                for sig, _w, _e in self.leaks:
                    labels["leak:" + sig] = True
                return labels
            # a leak of the known root cause D87 never hides another one of the same case
            other = [x for x in self.leaks if not x[0].endswith("@group_item_editing")]
            sig, what, e = (other or self.leaks)[0]
            tb = "".join(traceback.format_exception(type(e), e, e.__traceback__)[-6:])
            raise Violation("leak", "%s\ncall: %s\nforeign exception %s: %s\n%s" % (
                self.ctx, what, type(e).__name__, str(e)[:300], tb[-1500:]), sig)
        return labels


def exercise_line(gd, l):
    gd.call("str(line)", str, l)
    gd.call("repr(line)", repr, l)
    gd.call("line.to_str", l.to_str)
    gd.call("line.to_list", l.to_list)
    gd.call("line.validate", l.validate)
    st_, names = gd.call("fieldnames", lambda: list(l.positional_fieldnames) + list(l.tagnames))
    if st_ == "ok":
        for fn in names[:12]:
            gd.call("line.get(%r)" % fn, l.get, fn)
            gd.call("line.field_to_s(%r)" % fn, l.field_to_s, fn)
            gd.call("line.validate_field(%r)" % fn, l.validate_field, fn)
            gd.call("line.get_datatype(%r)" % fn, l.get_datatype, fn)


def exercise_gfa(gd, g):
    gd.call("str(gfa)", str, g)
    gd.call("gfa.validate", g.validate)
    st_, lines = gd.call("gfa.lines", lambda: g.lines)
    if st_ == "ok":
        for l in lines[:8]:
            exercise_line(gd, l)
    st_, names = gd.call("gfa.names", lambda: list(g.names))
    if st_ == "ok" and names:
        # strings handed back to the API: look up and remove a few of the identifiers
        for nm in [names[0], names[-1], names[len(names) // 2]]:
            gd.call("gfa.line(%r)" % (nm,), g.line, nm)
            gd.call("gfa.rm(%r)" % (nm,), g.rm, nm)
        gd.call("str(gfa) after rm", str, g)


def load_doc(gd, text, cfg):
    kw = {"vlevel": cfg["vlevel"]}
    if cfg.get("version"):
        kw["version"] = cfg["version"]
    if cfg.get("dialect"):
        kw["dialect"] = cfg["dialect"]
    e = cfg.get("entry", "str")
    if e == "str":
        return gd.call("Gfa(str)", gfapy.Gfa, text, **kw)
    if e == "list":
        return gd.call("Gfa(list)", gfapy.Gfa, text.split("\n"), **kw)
    d = tempfile.mkdtemp(prefix="vfc07")
    try:
        p = os.path.join(d, "x.gfa")
        with open(p, "w", newline="", encoding="utf-8", errors="surrogateescape") as f:
            f.write(text)
        if cfg.get("vlevel", 0) % 2 == 1 and not cfg.get("version") and not cfg.get("dialect"):
            # the other way of reading a file: an existing Gfa with progress logging switched on (as bin/gfapy-mergelinear does)
            import io

            def read_with_progress():
                g_ = gfapy.Gfa(vlevel=cfg["vlevel"])
                g_.enable_progress_logging(part=0.5, channel=io.StringIO())
                g_.read_file(p)
                return g_
            return gd.call("Gfa.read_file", read_with_progress)
        return gd.call("Gfa.from_file", gfapy.Gfa.from_file, p, **kw)
    finally:
        shutil.rmtree(d, ignore_errors=True)


def _gfapy_errors_are_fine(f):
    """C07 allows every gfapy.Error: one that escapes a call the harness did not wrap in a Guard is not a finding."""
    def g(case):
        try:
            return f(case)
        except GfapyError:
            return {"nt": False, "gfapy_error_outside_guard": True}
    g.__name__ = f.__name__
    return g


@_gfapy_errors_are_fine
def prop_text(case):
    text, cfg = case["text"], case["cfg"]
    gd = Guard("input %r config %r" % (text, cfg))
    if case["as"] == "line":
        kw = {"vlevel": cfg["vlevel"]}
        if cfg.get("version"):
            kw["version"] = cfg["version"]
        st_, l = gd.call("Line(str)", gfapy.Line, text, **kw)
        if st_ == "ok":
            exercise_line(gd, l)
    else:
        st_, g = load_doc(gd, text, cfg)
        if st_ == "ok":
            exercise_gfa(gd, g)
    return gd.finish({"nt": gd.reached, "as": case["as"], "vlevel": cfg["vlevel"], "deep_nesting": text.count("\n") >= 400 or None})


# ---------------------------------------------------------------- mutations

PATHO = ["xx:J:" + "[" * 1500 + "]" * 1500, "xx:J:" + "{\"a\":" * 1200 + "1" + "}" * 1200, "xx:J:[" + "9" * 5000 + "]",
         "xx:J:{\"k\":-" + "1" * 4400 + "}", "xx:i:" + "9" * 5000, "xx:i:-" + "7" * 4400, "xx:f:" + "1" * 5000 + ".5", "xx:f:1e" + "9" * 400,
         "xx:B:i," + ",".join(["1"] * 3000), "xx:B:I," + "9" * 4500, "xx:H:" + "AF" * 4000, "xx:Z:" + "z" * 20000, "xx:B:f," + "1" * 4500,
         "xx:J:" + "[1," * 1100 + "2" + "]" * 1100]


def mutate_text(r, text, k):
    lines = text.split("\n")
    for _ in range(k):
        m = r.randrange(15)
        if not lines:
            lines = [""]
        i = r.randrange(len(lines))
        groups = [j for j, x in enumerate(lines) if x[:2] in ("P\t", "O\t", "U\t")]
        if groups and gen.chance(r, 0.15):
            # list-valued records are where element counts matter: aim at them
            i, m = gen.choice(r, groups), 10
        ln = lines[i]
        if m == 0 and ln:  # replace a character
            p = r.randrange(len(ln))
            ln = ln[:p] + gen.choice(r, ALPHA) + ln[p + 1:]
        elif m == 1:  # insert a character
            p = r.randint(0, len(ln))
            ln = ln[:p] + gen.choice(r, ALPHA) + ln[p:]
        elif m == 2 and ln:  # delete a character
            p = r.randrange(len(ln))
            ln = ln[:p] + ln[p + 1:]
        elif m == 3:  # drop / duplicate / empty a field
            f = ln.split("\t")
            p = r.randrange(len(f))
            w = r.randrange(3)
            if w == 0:
                f.pop(p)
            elif w == 1:
                f.insert(p, f[p])
            else:
                f[p] = ""
            ln = "\t".join(f)
        elif m == 4:  # swap two fields
            f = ln.split("\t")
            if len(f) >= 2:
                a, b = r.randrange(len(f)), r.randrange(len(f))
                f[a], f[b] = f[b], f[a]
            ln = "\t".join(f)
        elif m == 5:  # change the record type
            f = ln.split("\t")
            f[0] = gen.choice(r, ["H", "S", "L", "C", "P", "E", "F", "G", "O", "U", "X", "#", "", "SS", "\n"])
            ln = "\t".join(f)
        elif m == 6:  # change a tag datatype or name
            f = ln.split("\t")
            tags = [j for j, x in enumerate(f) if G.TAG_RE.fullmatch(x)]
            if tags:
                j = gen.choice(r, tags)
                n, t, v = G.TAG_RE.fullmatch(f[j]).groups()
                if gen.chance(r, 0.6):
                    t = gen.choice(r, "AifZJHBQ")
                else:
                    n = gen.choice(r, ["VN", "TS", "LN", "ID", "RC", "FC", "KC", "SH", "UR", "MQ", "NM", "SN", "SO", "SR", "VN", "TS", "x", "xyz", n])
                f[j] = "%s:%s:%s" % (n, t, v)
            ln = "\t".join(f)
        elif m == 7:  # duplicate / drop / move a line
            w = r.randrange(3)
            if w == 0:
                lines.insert(r.randint(0, len(lines)), ln)
            elif w == 1 and len(lines) > 1:
                lines.pop(i)
                continue
            else:
                lines.pop(i)
                lines.insert(r.randint(0, len(lines)), ln)
                continue
        elif m == 8:  # two groups that list each other (or a group that lists itself)
            gl = [j for j, x in enumerate(lines) if x[:2] in ("O\t", "U\t") and x.count("\t") >= 2 and x.split("\t")[1] not in ("", "*")]
            if gl:
                a, b = gen.choice(r, gl), gen.choice(r, gl)
                for x, y in ((a, b), (b, a)):
                    f = lines[x].split("\t")
                    other = lines[y].split("\t")[1]
                    f[2] = (f[2] + " " + other + ("+" if f[0] == "O" else "")).strip()
                    lines[x] = "\t".join(f)
                continue
            elif len(lines) < 60:
                sn = [x.split("\t")[1] for x in lines if x[:2] == "S\t" and x.count("\t") >= 2] or ["A"]
                a_ = gen.choice(r, sn)
                lines.append(gen.choice(r, ["U\tuc1\tuc2 A\nU\tuc2\tuc1 B", "O\toc1\toc2+ A+\nO\toc2\toc1- B+", "U\tuc1\tuc1",
                                            "U\tuc1\tuc2\nU\tuc2\tuc3\nU\tuc3\tuc1 A",
                                            "O\toc1\t%s+ oc1+ oc1+" % a_, "U\tuc1\t%s uc1 uc1" % a_, "O\toc1\toc1- %s+" % a_]))
                continue
        elif m == 9:  # reuse an identifier of another line (as a field or as an ID tag)
            idents = [x.split("\t")[1] for x in lines if x.count("\t") >= 1 and x.split("\t")[1] not in ("", "*")]
            if idents:
                ident = gen.choice(r, idents)
                f = ln.split("\t")
                if gen.chance(r, 0.5) and len(f) > 1:
                    f[r.randrange(1, len(f))] = ident
                else:
                    f.append("ID:Z:" + ident)
                ln = "\t".join(f)
        elif m == 10:  # change the number of elements of a list field (path segments / overlaps, group items)
            f = ln.split("\t")
            cands = [j for j, x in enumerate(f) if j >= 2 and ("," in x or " " in x or f[0] in ("P", "O", "U"))]
            if cands:
                j = gen.choice(r, cands)
                sep = "," if f[0] == "P" or "," in f[j] else " "
                el = f[j].split(sep)
                w = r.randrange(3)
                if w == 0 and len(el) > 1:
                    el.pop(r.randrange(len(el)))
                elif w == 1:
                    el.insert(r.randint(0, len(el)), gen.choice(r, el))
                else:
                    el = el[:1]
                f[j] = sep.join(el)
            ln = "\t".join(f)
        elif m == 14 and any(c.isdigit() for c in ln):
            # a digit becomes a character that only LOOKS like a number to str.isdigit(), to \d or to int():
            # superscripts, circled and subscript digits, decimal digits of other scripts, a minus sign, an underscore
            ps = [j for j, c in enumerate(ln) if c.isdigit()]
            p = gen.choice(r, ps)
            c = gen.choice(r, ["\u00b2", "\u00b9", "\u2460", "\u2082", "\u0663", "\uff15", "\u0967", "_", "\u2212", " "])
            ln = (ln[:p] + c + ln[p + 1:]) if gen.chance(r, 0.5) else (ln[:p + 1] + c + ln[p + 1:])
        elif m == 13:  # a further tag of pathological size (deep nesting, thousands of digits or elements)
            ln = ln + "\t" + gen.choice(r, PATHO)
        elif m == 11:  # an odd identifier in the name field
            f = ln.split("\t")
            if len(f) > 1:
                f[1] = gen.choice(r, ["²", "٣", "５", "*", "1", "A+", "", "00", "a b", "é", "9" * 5000])
            ln = "\t".join(f)
        else:  # replace a whole field by special content
            f = ln.split("\t")
            p = r.randrange(len(f))
            f[p] = gen.choice(r, ["*", "", "$", "0$", "-1", "+", ",", "1,2", "*,*", "a+,", ",+", "{", "[1,", "1e999", "0M",
                                  "99999999999999999999", "A+ B-", "x" * 300, "５", "²", "٣", "xx:i:1", "co:Z:GFAPY_virtual_line",
                                  "1M", "1M,1M,1M,1M", "*,*,*", "xx:J:" + "[" * 1500 + "]" * 1500, "xx:J:" + "{\"a\":" * 1200 + "1" + "}" * 1200,
                                  "A+,B+,A+,B+,A+", "9" * 5000, "9" * 5000 + "M", "1M" + "7" * 4400 + "D", "-" + "9" * 4500])
            ln = "\t".join(f)
        if i < len(lines):
            lines[i] = ln
    return "\n".join(lines)


_TESTDATA = None


def testdata():
    global _TESTDATA
    if _TESTDATA is None:
        out = []
        for p in sorted(glob.glob(os.path.join(ROOT, "tests", "testdata", "*.gfa*"))):
            try:
                with open(p) as f:
                    t = f.read()
            except Exception:
                continue
            ls = [x for x in t.split("\n") if x]
            if 0 < len(ls) <= 40:
                out.append("\n".join(ls))
        _TESTDATA = out or ["S\tA\t*"]
    return _TESTDATA


def prop_mutant(case):
    return prop_text(case)


def st_cfg(r):
    return {"vlevel": gen.choice(r, [0, 0, 0, 1, 1, 2, 3]), "version": gen.choice(r, [None, None, "gfa1", "gfa2"]),
            "dialect": gen.choice(r, [None, None, None, "rgfa"]), "entry": gen.choice(r, ["str", "list", "file"])}


@st.composite
def st_text_case(draw):
    r = draw(st.randoms(use_true_random=False))
    as_ = gen.choice(r, ["line", "doc", "doc"])
    if gen.chance(r, 0.5):
        text = draw(st.text(alphabet=ALPHA, max_size=40))
    else:
        # record-type letter, then fields of arbitrary text
        nf = r.randint(0, 9)
        fields = [gen.choice(r, ["H", "S", "L", "C", "P", "E", "F", "G", "O", "U", "X", "#", "A1"])]
        for _ in range(nf):
            fields.append(gen.choice(r, ["*", "A", "A+", "10", "10$", "0", "+", "-", "5M", "1,2", "xx:i:1", "A+,B-", "A B", "VN:Z:1.0", "TS:i:1", "LN:i:3", "VN:i:1",
                                         draw(st.text(alphabet=ALPHA.replace("\t", "").replace("\n", ""), max_size=8))]))
        text = "\t".join(fields)
        if as_ == "doc":
            text = "\n".join([text] + ["\t".join([gen.choice(r, "HSLCPEFGOUX#")] + [gen.choice(r, ["*", "A", "B+", "1", "A+", "0", "1$", "3M"]) for _ in range(r.randint(0, 8))])
                                       for _ in range(r.randint(0, 3))])
    return {"text": text, "as": as_, "cfg": st_cfg(r)}


@st.composite
def st_mutant_case(draw):
    r = draw(st.randoms(use_true_random=False))
    if gen.fair(r, 0.012):
        # groups nested several hundred levels deep (a chain g0 < g1 < ... < g1499): what a removal cascades through
        k_ = gen.choice(r, "UO")
        sfx = "+" if k_ == "O" else ""
        base = "S\ta\t10\t*\n%s\tg0\ta%s\n" % (k_, sfx) + "\n".join("%s\tg%d\tg%d%s" % (k_, i, i - 1, sfx) for i in range(1, 1500))
        return {"text": base, "as": "doc", "cfg": dict(st_cfg(r), dialect=None, version=None)}
    if gen.fair(r, 0.06):
        # the rGFA dialect: a document of that subset with one of its rules broken (or none), read as rGFA, so that
        # every dialect-specific test is reached; then the usual point mutations, or none
        from . import c04
        f_, _want = c04.RGFA_MUT[gen.choice(r, sorted(c04.RGFA_MUT))]
        lines_ = f_(list(c04.RGFA_BASE))
        if gen.chance(r, 0.5):
            r.shuffle(lines_)
        text = "\n".join(lines_)
        if gen.chance(r, 0.4):
            text = mutate_text(r, text, 1)
        return {"text": text, "as": "doc", "cfg": dict(st_cfg(r), dialect="rgfa", version=gen.choice(r, [None, "gfa1"]))}
    if gen.chance(r, 0.35):
        base = gen.choice(r, testdata())
    else:
        v = gen.choice(r, ["gfa1", "gfa2"])
        doc = gen.build_gfa1(r, {"nseg": (1, 3)}) if v == "gfa1" else gen.build_gfa2(r, {"nseg": (1, 3)})
        base = gen.doc_text(doc)
    text = mutate_text(r, base, r.randint(1, 3))
    as_ = "doc"
    if gen.chance(r, 0.25):
        as_ = "line"
        ls = text.split("\n")
        text = gen.choice(r, ls) if ls else ""
    return {"text": text, "as": as_, "cfg": st_cfg(r)}


# ---------------------------------------------------------------- API strings

API_BASE = {
    "gfa1": "H\tVN:Z:1.0\nS\tA\tACGT\tLN:i:4\txx:i:1\nS\tB\t*\tLN:i:9\nL\tA\t+\tB\t-\t2M\tID:Z:l1\nC\tA\t+\tB\t+\t1\t2M\nP\tp1\tA+,B-\t2M\tab:Z:q",
    "gfa2": "H\tVN:Z:2.0\tTS:i:5\nS\tA\t4\tACGT\txx:i:1\nS\tB\t9\t*\nE\te1\tA+\tB-\t2\t4$\t0\t2\t2M\nG\tg1\tA+\tB+\t5\t*\nF\tA\tread1+\t0\t4$\t0\t4\t*\nO\to1\tA+ e1+ B-\nU\tu1\tA g1 o1\nX\tf1\tf2\tab:Z:q",
}
NAMES = ["A", "B", "e1", "g1", "o1", "u1", "p1", "l1", "read1", "nope", "*", "", " ", "A+", "1", "\t", "\n", "name", "é", "X" * 50]
FIELDS = ["name", "sid", "sequence", "slen", "LN", "xx", "ab", "VN", "TS", "from_segment", "to_segment", "from_orient",
          "overlap", "pos", "path_name", "segment_names", "overlaps", "eid", "sid1", "sid2", "beg1", "end1", "beg2", "end2",
          "alignment", "gid", "disp", "var", "external", "s_beg", "items", "pid", "field1", "record_type", "content",
          "virtual", "gfa", "version", "vlevel", "_data", "__class__", "__dict__", "dovetails_L", "paths", "links",
          "", " ", "x", "xyz", "1a", "a\tb", "é1", "zz", "ID", "RC", "try_get_LN", "from_end", "length", "coverage"]
VALUES = ["", "*", "1", "-1", "1.5", "abc", "A", "A+", "A+,B-", "A B", "2M", "2M1I", "1,2", "0$", "4$", "$", "{}", "[1]", "{",
          "00FF", "0", "c,1,2", "c,300", "f,1", "x" * 100, "a\tb", "a\nb", "é", "+", "-", "1e5", "nan", "1_0"]
TYPES = ["i", "f", "Z", "A", "J", "H", "B", "", "Q", "ii", "*", "cmt", "generic"]
# the fields each line of the base documents really has: half of the line calls aim at them
RT_FIELDS = {
    "gfa1": {"H": ["VN"], "S": ["name", "sequence", "LN", "xx"],
             "L": ["from_segment", "from_orient", "to_segment", "to_orient", "overlap", "ID", "from", "to"],
             "C": ["from_segment", "to_segment", "pos", "overlap", "container", "contained"],
             "P": ["path_name", "segment_names", "overlaps", "ab", "name"]},
    "gfa2": {"H": ["VN", "TS"], "S": ["sid", "slen", "sequence", "xx", "name"],
             "E": ["eid", "sid1", "sid2", "beg1", "end1", "beg2", "end2", "alignment", "name", "TS", "VN"],
             "G": ["gid", "sid1", "sid2", "disp", "var", "name"],
             "F": ["sid", "external", "s_beg", "s_end", "f_beg", "f_end", "alignment", "VN", "TS"],
             "O": ["pid", "items", "name"], "U": ["pid", "items", "name"], "X": ["field1", "field2", "ab"]},
}
VALUES2 = ["A+", "B-", "B+", "read2+", "read1-", "nope+", "B", "A", "o1", "u1", "e1", "C", "new1", "A+ B-", "A+,B-", "B A", "2M", "*",
           "0", "1", "4$", "9$", "3", "10"]


@_gfapy_errors_are_fine
def prop_api(case):
    version, vlevel = case["version"], case["vlevel"]
    gd = Guard("api case %r" % (case,))
    try:
        g = gfapy.Gfa(API_BASE[version], vlevel=vlevel)
    except Exception as e:
        raise Violation("base", "base document not loaded: %s" % e)
    for op in case["ops"]:
        k = op[0]
        if k == "gfa":
            _k, meth, arg = op
            gd.call("gfa.%s(%r)" % (meth, arg), getattr(g, meth), arg)
        else:
            _k, li, meth, args = op[:4]
            st_, lines = gd.call("gfa.lines", lambda: g.lines + [g.header])
            if k == "line_rt" and st_ == "ok":
                st_, lines = gd.call("record types", lambda: [x for x in lines if x.record_type == op[4]])
            if st_ != "ok" or not lines:
                continue
            l = lines[li % len(lines)]
            gd.call("%s-line.%s%r" % (l.record_type, meth, tuple(args)), getattr(l, meth), *args)
    gd.call("str(gfa)", str, g)
    gd.call("gfa.validate", g.validate)
    st_, lines = gd.call("gfa.lines", lambda: g.lines)
    for l in (lines if st_ == "ok" else []):
        gd.call("str(line)", str, l)
        gd.call("line.validate", l.validate)
    gd.reached = True
    return gd.finish({"nt": True, "version": version, "vlevel": vlevel})


@st.composite
def st_api_case(draw):
    r = draw(st.randoms(use_true_random=False))
    ops = []
    version = gen.choice(r, ["gfa1", "gfa2"])
    for _ in range(r.randint(1, 6)):
        if gen.chance(r, 0.35):
            meth = gen.choice(r, ["line", "segment", "try_get_line", "try_get_segment", "rm", "fragments_for_external",
                                  "add_line", "custom_records_of_type", "segment_connected_component"])
            arg = gen.choice(r, NAMES) if meth != "add_line" else gen.choice(
                r, ["S\tC\t*", "S\tA\t*", "", "\t", "L\tA\t+\tC\t+\t*", "P\tp2\tA+,C+\t*", "U\tu1\tB", "O\to1\tB+", "E\t*\tA+\tC+\t0\t1\t0\t1\t*",
                    "H\tVN:Z:3.0", "H\tTS:i:x", "#", "S", "X", "\n", "\n\n", " ", "X\n", "\r", gen.choice(r, NAMES)])
            ops.append(["gfa", meth, arg])
        else:
            meth = gen.choice(r, ["get", "try_get", "set", "delete", "set_datatype", "validate_field", "field_to_s",
                                  "get_datatype", "set", "set"])
            rt = None
            if gen.chance(r, 0.5):
                rt = gen.choice(r, sorted(RT_FIELDS[version]))
                fn = gen.choice(r, RT_FIELDS[version][rt])
            else:
                fn = gen.choice(r, FIELDS)
            if gen.chance(r, 0.08):
                meth = "disconnect"
            elif version == "gfa2" and gen.chance(r, 0.06):
                # the documented item-editing methods of groups (identifier strings)
                rt = gen.choice(r, "OU")
                meth = gen.choice(r, ["add_item", "rm_item"] if rt == "U" else ["append_item", "prepend_item", "rm_first_item", "rm_last_item"])
                fn = None
            if meth == "set":
                args = [fn, gen.choice(r, VALUES2 if rt and gen.chance(r, 0.6) else VALUES)]
            elif meth == "set_datatype":
                args = [fn, gen.choice(r, TYPES)]
            elif meth == "disconnect" or meth.startswith("rm_") and meth.endswith("_item") and meth != "rm_item":
                args = []
            elif meth.endswith("_item"):
                args = [gen.choice(r, ["A", "B", "e1", "g1", "o1", "u1", "nope", "A+", "e1-", ""])]
            else:
                args = [fn]
            ops.append(["line_rt", r.randrange(20), meth, args, rt] if rt else ["line", r.randrange(20), meth, args])
    if gen.chance(r, 0.2):
        # the field under which the Gfa files a line (name, external sequence of a fragment) is given a new
        # value; what that leaves behind shows when the line or its segment is removed afterwards
        keyed = {"gfa1": [("S", "name"), ("P", "path_name"), ("L", "ID")],
                 "gfa2": [("S", "sid"), ("E", "eid"), ("G", "gid"), ("O", "pid"), ("U", "pid"), ("F", "external"), ("F", "external")]}[version]
        rt, fn = gen.choice(r, keyed)
        val = gen.choice(r, ["read2+", "read1-", "zz9+"]) if fn == "external" else gen.choice(r, ["new1", "B", "zz9", "e1", "*", "7"])
        ops.append(["line_rt", r.randrange(20), "set", [fn, val], rt])
        ops.append(gen.choice(r, [["line_rt", r.randrange(20), "disconnect", [], rt], ["gfa", "rm", gen.choice(r, ["A", "B"])]]))
    if gen.chance(r, 0.5):
        # what an edit left behind shows when lines are removed afterwards
        for _ in range(r.randint(1, 2)):
            ops.append(["gfa", "rm", gen.choice(r, NAMES[:9])])
    return {"version": version, "vlevel": r.randrange(4), "ops": ops}


@_gfapy_errors_are_fine
def prop_cli(case):
    """bin/gfapy-validate on a file: exit status 0 (valid) or 1 (refused with the message of a gfapy.Error); no
    traceback, and the verdict is the one of Gfa.from_file(...).validate() in this process."""
    from .. import cli
    text = case["text"]
    if not cli.available("gfapy-validate"):
        raise Violation("cli-missing", "bin/gfapy-validate not found under %s" % ROOT)
    try:
        rc, out, err = cli.run_script("gfapy-validate", ["x.gfa"], {"x.gfa": text})
    except Exception as e:
        if type(e).__name__ == "TimeoutExpired":
            raise Violation("hang", "gfapy-validate did not terminate within 120 s on %r" % text, "cli")
        raise
    if rc not in (0, 1) or "Traceback" in err:
        last = [x for x in err.strip().split("\n") if x][-1:] or [""]
        raise Violation("cli-leak", "gfapy-validate on %r: exit status %s\n%s" % (text, rc, err[-1200:]), last[0].split(":")[0][:40])
    gd = Guard("file %r" % text)
    cfg = {"vlevel": 1, "entry": "file"}
    st_, g = load_doc(gd, text, cfg)
    ok = False
    if st_ == "ok":
        st2, _ = gd.call("gfa.validate", g.validate)
        ok = st2 == "ok"
    if not gd.leaks and ok != (rc == 0):
        raise Violation("cli-verdict", "gfapy-validate exits with %d on %r but Gfa.from_file().validate() %s\n%s" % (
            rc, text, "succeeds" if ok else "raises", err[-600:]), "exit=%d" % rc)
    return gd.finish({"nt": gd.reached, "cli_exit": rc})


@st.composite
def st_cli_case(draw):
    case = draw(st_mutant_case())
    if case["as"] == "line":
        case["as"] = "doc"
    return {"text": case["text"]}


def prop_fuzz(case):
    if "atheris_stats" in case:
        return {"nt": False, "atheris_campaigns": True, "atheris_runs": case["atheris_stats"].get("runs_bucket")}
    return prop_text(case)


def enum_atheris(shard, nshards):
    """One libFuzzer campaign per shard (Atheris, coverage-guided, gfapy instrumented); the
    leaks it records are yielded as cases and re-checked by the plain oracle."""
    import json as _json
    import re as _re
    import subprocess
    import sys as _sys
    here = os.path.dirname(os.path.dirname(os.path.dirname(os.path.abspath(__file__))))
    secs = int(os.environ.get("VERIF_C07_FUZZ_SECONDS", "150"))
    seed = int(os.environ.get("VERIF_SEED", "1")) * 1000 + shard + 1
    d = tempfile.mkdtemp(prefix="vfc07fz")
    try:
        os.makedirs(os.path.join(d, "corpus"))
        out = os.path.join(d, "leaks.json")
        env = dict(os.environ, PYTHONPATH=here + os.pathsep + os.path.join(here, ".deps"))
        r = subprocess.run([_sys.executable, "-m", "vf.fuzz.c07_atheris", out, "-max_total_time=%d" % secs, "-seed=%d" % seed,
                            "-max_len=400", "-timeout=60", os.path.join(d, "corpus")], cwd=here, env=env, capture_output=True, text=True)
        m = _re.search(r"Done (\d+) runs", r.stderr + r.stdout)
        runs = int(m.group(1)) if m else 0
        if not os.path.exists(out) or (m is None and "atheris" in (r.stderr + r.stdout) and "No module" in (r.stderr + r.stdout)):
            return  # atheris not available: the part contributes nothing (Hypothesis parts decide)
        yield {"atheris_stats": {"runs": runs, "runs_bucket": "%dk" % (runs // 1000), "seconds": secs, "seed": seed}}
        try:
            leaks = _json.load(open(out))
        except Exception:
            leaks = []
        for l in leaks:
            yield l["case"]
    finally:
        shutil.rmtree(d, ignore_errors=True)


# ---------------------------------------------------------------- scaling (no call may take for ever)

SCALING = {
    # name: (line template with %s, element, separator, malformed tails)
    "P-segments": ("P\tp\t%s\t*", "a+", ",", ["a", "+", "a+,", ",", "a +"]),
    "P-overlaps": ("P\tp\ta+,b+\t%s", "1M", ",", ["x", "1", "M", ","]),
    "O-items": ("O\to\t%s", "a+", " ", ["a", "+", " ", "a+\x01"]),
    "U-items": ("U\tu\t%s", "a", " ", ["\x01", " ", "a\x7f"]),
    "L-cigar": ("L\ta\t+\tb\t-\t%s", "1M", "", ["x", "1", "M"]),
    "E-trace": ("E\te\ta+\tb-\t0\t1\t0\t1\t%s", "1", ",", ["x", ",", "-"]),
    "E-cigar": ("E\te\ta+\tb-\t0\t1\t0\t1\t%s", "1M", "", ["x", "1", "S"]),
    "B-int": ("S\ts\t*\txx:B:i,%s", "1", ",", ["x", ",", "1.5", ""]),
    "B-float": ("S\ts\t*\txx:B:f,%s", "1.5", ",", ["x", ",", "1e", "."]),
    "H-bytes": ("S\ts\t*\txx:H:%s", "AF", "", ["G", "A", "a"]),
    "f-digits": ("S\ts\t*\txx:f:%s", "1", "", ["e", ".", "e+", "x"]),
    "i-digits": ("S\ts\t*\txx:i:%s", "1", "", ["x", "-", "+"]),
    "sequence": ("S\ts\t%s", "AC", "", ["\x01", " ", "*"]),
    "S2-sequence": ("S\ts\t10\t%s", "AC", "", ["\x01", " "]),
    "name": ("S\t%s\t*", "ab", "", [" ", "\x01", "+,", "*"]),
    "J-list": ("S\ts\t*\txx:J:[%s", "1", ",", ["x", ",", "]]", "["]),
    "Z": ("S\ts\t*\txx:Z:%s", "ab ", "", ["\x01", "\x7f"]),
    "tagname": ("S\ts\t*\t%s", "xx:i:1", "\t", ["xx:i:1", "x:i:1", "xx:i:", "xx"]),
}
SCALE_SMALL, SCALE_BIG = 11, 23


def prop_scaling(case):
    """The time a call takes grows moderately with the length of a field: the same malformed field with 23
    instead of 11 well-formed elements in front of the flaw must not take thousands of times longer.  (CPU time of
    this process; the relation is judged only when the longer call took more than half a second, so a
    loaded machine does not matter.)"""
    import time
    tmpl, el, sep, _tails = SCALING[case["field"]]
    tail = case["tail"]
    took = {}
    for n in (SCALE_SMALL, SCALE_BIG):
        text = tmpl % (sep.join([el] * n) + (sep if tail and not tail.startswith(sep or "\0") else "") + tail)
        t0 = time.process_time()
        for _rep in range(3 if n == SCALE_SMALL else 1):
            try:
                l = gfapy.Line(text, vlevel=case["vlevel"], **({"version": case["version"]} if case.get("version") else {}))
                str(l)
                l.validate()
            except GfapyError:
                pass
            except Exception as e:
                raise Violation("leak", "%s on %r: %s" % (type(e).__name__, text[:80], str(e)[:200]), "scaling/" + type(e).__name__)
        took[n] = (time.process_time() - t0) / (3 if n == SCALE_SMALL else 1)
    if took[SCALE_BIG] > 0.5 and took[SCALE_BIG] > 200 * max(took[SCALE_SMALL], 1e-5):
        raise Violation("does-not-terminate", "field %s, flaw %r: %d elements before the flaw take %.4f s, %d elements %.2f s - every further element multiplies the time (validation level %d)\n%r" % (
            case["field"], tail, SCALE_SMALL, took[SCALE_SMALL], SCALE_BIG, took[SCALE_BIG], case["vlevel"], text), case["field"])
    return {"nt": True, "field": case["field"]}


def enum_scaling(shard, nshards):
    i = 0
    for f in sorted(SCALING):
        for tail in SCALING[f][3]:
            for vlevel in (1, 3, 0):
                i += 1
                if i % nshards == shard:
                    yield {"field": f, "tail": tail, "vlevel": vlevel, "version": "gfa2" if f in ("O-items", "U-items", "E-trace", "E-cigar", "S2-sequence") else None}


def parts(tier):
    q = tier == "quick"
    return [Part("scaling", prop_scaling, enum=enum_scaling, exhaustive=True,
                 note="18 kinds of list-like or repetitive fields x malformed tails x vlevel: 23 elements before the flaw must not take thousands of times longer than 11"),
            Part("text", prop_text, strategy=st_text_case(), n=2500 if q else 15000, quick_shards=4),
            Part("mutants", prop_mutant, strategy=st_mutant_case(), n=1500 if q else 12000, quick_shards=4),
            Part("api", prop_api, strategy=st_api_case(), n=1200 if q else 8000, quick_shards=4),
            Part("cli", prop_cli, strategy=st_cli_case(), n=40 if q else 150, quick_shards=4,
                 note="bin/gfapy-validate as a subprocess on files holding mutated documents")] + (
        [] if q else [Part("atheris", prop_fuzz, enum=enum_atheris,
                           note="16 libFuzzer campaigns (Atheris, gfapy instrumented) of VERIF_C07_FUZZ_SECONDS (150) s each; "
                                "evaluations counts only the re-checked records, the number of fuzzer executions is in the labels")])
