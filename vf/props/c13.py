"""C13 The GFA version is inferred from content and enforced consistently."""
import itertools
import os
import shutil
import tempfile

from hypothesis import strategies as st

from .. import gen, grammar as G, model as M
from ..env import gfapy, GfapyError
from ..runner import Part, Violation

ID = "C13"
RULE = ("part 'kinds' (exhaustive): every sequence of <= 3 (quick) / <= 4 (thorough) lines over 16 line kinds "
        "{H, H VN:1.0, H VN:2.0, #, S gfa1, S gfa2, L, C, P, E, F, G, O, U, custom, custom with a type of several characters that begins like a standard one (LN, PA, HX, SQ...)} x version parameter {none, "
        "gfa1, gfa2} x vlevel {0, 1, 2} (at level 0 a conflicting sequence that contains a VN header is not judged), plus the "
        "same sequences with repeated kinds spelled identically (two equal custom / comment / C / E / F / G lines), driven incrementally (Gfa() + add_line + process_line_queue) with strings and "
        "with gfapy.Line objects and, when every "
        "reference is defined, through Gfa(list); rGFA dialect on the S/L subset. part 'docs': generated valid "
        "documents, pure or with one line of the other version injected, in random orders, via Gfa(list) and "
        "from_file. Oracle (model table): version = parameter, else VN, else implied by the version-specific "
        "lines, else gfa2; VersionError iff GFA1-only and GFA2-only constructs (or parameter / VN / dialect) "
        "conflict; every non-header line present exactly once afterwards. non-trivial = the line that fixes the "
        "version is preceded by >= 1 line that had to be queued; distinct by (sequence, parameters)")
ASSUMPTIONS = [
    "the cross-check between a VN header and the content is judged at vlevel >= 1 only (level 0 documents that it skips it); every other conflict also at level 0",
    "custom records are GFA2-only constructs (gfapy documents that GFA1 has no custom records)",
    "with the rGFA dialect only S (with SN/SO/SR) and L (0M) lines are used, and at least one version-specific line is present",
]

KINDS = ["H", "H1", "H2", "#", "S1", "S2", "S2T", "L", "C", "P", "E", "F", "G", "O", "U", "X", "XX"]
V1 = {"H1", "S1", "L", "C", "P"}
V2 = {"H2", "S2", "S2T", "E", "F", "G", "O", "U", "X", "XX"}
QUEUED = {"L", "C", "P", "X", "XX", "#", "H"}
# custom record types of more than one character that begin with the letter of a standard record type
LONG_TYPES = ["LN", "PA", "CT", "HX", "SQ", "EX", "GG", "OO", "UU", "FF", "H1", "S2"]  # not deciding by themselves when the version is unknown


def make_line(kind, i, x, y, rgfa=False):
    if kind == "H":
        return "H\tx%d:i:%d" % (i, i)
    if kind == "H1":
        return "H\tVN:Z:1.0"
    if kind == "H2":
        return "H\tVN:Z:2.0"
    if kind == "#":
        return "# comment %d" % i
    if kind == "S1":
        return "S\ts%d\t*" % i + ("\tSN:Z:chr\tSO:i:%d\tSR:i:0" % i if rgfa else "")
    if kind == "S2":
        return "S\ts%d\t10\t*" % i
    if kind == "S2T":
        # a GFA2 segment whose sequence has the shape of a tag (the length field, an integer, is what tells the versions apart)
        return "S\ts%d\t7\tab:Z:cd%d" % (i, i)
    if kind == "L":
        return "L\t%s\t+\t%s\t%s\t%s" % (x, y, "+-"[i % 2], "0M" if rgfa else "*") + ("" if rgfa else "\txx:i:%d" % i)
    if kind == "C":
        return "C\t%s\t+\t%s\t-\t%d\t*" % (x, y, i)
    if kind == "P":
        return "P\tp%d\t%s+\t*" % (i, x)
    if kind == "E":
        return "E\t*\t%s+\t%s-\t0\t%d\t0\t1\t*" % (x, y, i + 1)
    if kind == "F":
        return "F\t%s\tr%d+\t0\t1\t0\t1\t*" % (x, i)
    if kind == "G":
        return "G\t*\t%s+\t%s-\t%d\t*" % (x, y, i)
    if kind == "O":
        return "O\to%d\t%s+" % (i, x)
    if kind == "U":
        return "U\tu%d\t%s" % (i, x)
    if kind == "XX":
        return "%s\tfield%d\txx:i:%d" % (LONG_TYPES[i % len(LONG_TYPES)], i, i)
    return "X\tfield%d" % i


def expected(seq, param, dialect):
    has1 = any(k in V1 for k in seq) or param == "gfa1" or (dialect == "rgfa")
    has2 = any(k in V2 for k in seq) or param == "gfa2"
    if has1 and has2:
        return "error"
    if has1:
        return "gfa1"
    return "gfa2"


def first_decider(seq, param):
    if param:
        return -1
    for i, k in enumerate(seq):
        if k in ("H1", "H2", "S1", "S2", "S2T", "E", "F", "G", "O", "U"):
            return i
    return None


def check_result(g, seq, want, ctx):
    if g.version != want:
        raise Violation("version", "%s: version %r, expected %r" % (ctx, g.version, want), want)
    n = len([l for l in g.lines if l.record_type != "H" and not l.virtual])
    m = len([k for k in seq if not k.startswith("H")])
    if n != m:
        raise Violation("line-count", "%s: %d non-header lines in the Gfa, %d were added\n%s" % (ctx, n, m, g), "")
    if g._line_queue:
        raise Violation("queue-left", "%s: %d lines left in the queue" % (ctx, len(g._line_queue)))


DUP_OK = {"#", "X", "XX", "C", "E", "F", "G"}  # records that may occur twice with the same text


def _idx(seq, i, same):
    """Index used to spell line i: with same=True a repeated kind that may legally occur twice is
    spelled exactly like its first occurrence (two identical lines)."""
    if same and seq[i] in DUP_OK:
        return seq.index(seq[i])
    return i


def prop_kinds(case):
    seq, param, vlevel, dialect = case["seq"], case["param"], case["vlevel"], case.get("dialect", "standard")
    same = bool(case.get("same"))
    rgfa = dialect == "rgfa"
    want = expected(seq, param, dialect)
    if vlevel == 0 and want == "error" and any(k in ("H1", "H2") for k in seq):
        # a conflict that may involve a VN header: level 0 documents that this cross-check is skipped
        return {"nt": False, "not_judged_v0": True}
    segs = ["s%d" % i for i, k in enumerate(seq) if k in ("S1", "S2", "S2T")]
    # driver 1: incremental, references to identifiers that are never defined
    lines = [make_line(k, _idx(seq, i, same), "X%d" % _idx(seq, i, same), "Y%d" % _idx(seq, i, same), rgfa) for i, k in enumerate(seq)]
    ctx = "sequence %s param=%s vlevel=%d dialect=%s (incremental)\n%s" % (seq, param, vlevel, dialect, "\n".join(lines))
    kw = {"vlevel": vlevel, "dialect": dialect}
    if param:
        kw["version"] = param
    outcome = None
    try:
        g = gfapy.Gfa(**kw)
        for l in lines:
            g.add_line(l)
        g.process_line_queue()
        outcome = "ok"
    except gfapy.VersionError:
        outcome = "error"
    except GfapyError as e:
        raise Violation("other-error", "%s\nraised %s: %s" % (ctx, type(e).__name__, str(e)[:300]), type(e).__name__)
    except Exception as e:
        raise Violation("foreign", "%s\nraised %s: %s" % (ctx, type(e).__name__, str(e)[:300]), type(e).__name__)
    if rgfa and outcome == "ok":
        try:
            g.validate_rgfa()
        except gfapy.VersionError:
            outcome = "error"
        except GfapyError:
            pass
    if want == "error":
        if outcome != "error":
            raise Violation("mixed-accepted", "%s\nmixed/contradicting versions accepted as %s" % (ctx, g.version), "")
    else:
        if outcome == "error":
            raise Violation("valid-rejected", "%s\nVersionError for a document valid as %s" % (ctx, want), want)
        check_result(g, seq, want, ctx)
    # driver 3: the same lines as gfapy.Line objects (each knows its own version from its syntax)
    if not rgfa:
        ctx3 = ctx.replace("(incremental)", "(Line objects)")
        out3 = None
        try:
            g3 = gfapy.Gfa(**kw)
            for j, l in enumerate(lines):
                inst = gfapy.Line(l, vlevel=vlevel)
                if case.get("clones") and (j + len(lines)) % 2 == 0:
                    inst = inst.clone()  # a copy is the same line: same version, same syntax
                g3.add_line(inst)
            g3.process_line_queue()
            out3 = "ok"
        except gfapy.VersionError:
            out3 = "error"
        except GfapyError as e:
            raise Violation("other-error", "%s\nraised %s: %s" % (ctx3, type(e).__name__, str(e)[:300]), "instances/" + type(e).__name__)
        except Exception as e:
            raise Violation("foreign", "%s\nraised %s: %s" % (ctx3, type(e).__name__, str(e)[:300]), "instances/" + type(e).__name__)
        if want == "error" and out3 != "error":
            raise Violation("mixed-accepted", "%s\nmixed/contradicting versions accepted as %s" % (ctx3, g3.version), "instances")
        if want != "error":
            if out3 == "error":
                raise Violation("valid-rejected", "%s\nVersionError for a document valid as %s" % (ctx3, want), "instances/" + want)
            check_result(g3, seq, want, ctx3)
    # driver 2: Gfa(list), only when all references can be defined
    if segs:
        x, y = segs[0], segs[-1]
        lines2 = [make_line(k, _idx(seq, i, same), x, y, rgfa) for i, k in enumerate(seq)]
        if seq.count("L") > 1:
            lines2 = None  # would repeat the same link
        if lines2 is not None:
            ctx2 = "sequence %s param=%s vlevel=%d dialect=%s (Gfa(list))\n%s" % (seq, param, vlevel, dialect, "\n".join(lines2))
            try:
                g2 = gfapy.Gfa(lines2, **kw)
                out2 = "ok"
            except gfapy.VersionError:
                out2 = "error"
            except GfapyError as e:
                out2 = "other:" + type(e).__name__
                if want != "error":
                    raise Violation("other-error", "%s\nraised %s: %s" % (ctx2, type(e).__name__, str(e)[:300]), type(e).__name__)
            except Exception as e:
                raise Violation("foreign", "%s\nraised %s: %s" % (ctx2, type(e).__name__, str(e)[:300]), type(e).__name__)
            if want == "error" and out2 == "ok":
                raise Violation("mixed-accepted", "%s\nmixed/contradicting versions accepted as %s" % (ctx2, g2.version), "")
            if want != "error":
                if out2 == "error":
                    raise Violation("valid-rejected", "%s\nVersionError for a document valid as %s" % (ctx2, want), want)
                check_result(g2, seq, want, ctx2)
    d = first_decider(seq, param)
    nt = d is not None and d > 0 and any(k in QUEUED for k in seq[:d])
    return {"nt": nt, "want": want, "len": len(seq), "vlevel": vlevel, "identical_lines": same}


def enum_kinds(maxlen):
    def e(shard, nshards):
        i = 0
        for n in range(1, maxlen + 1):
            for seq in itertools.product(KINDS, repeat=n):
                for param in (None, "gfa1", "gfa2"):
                    i += 1
                    if i % nshards != shard:
                        continue
                    for vlevel in (1, 2, 0):
                        yield {"seq": list(seq), "param": param, "vlevel": vlevel, "clones": (i + vlevel) % 3 == 0}
                    if any(k in DUP_OK and seq.count(k) > 1 for k in seq):
                        yield {"seq": list(seq), "param": param, "vlevel": 1 + (i % 2), "same": True}
        rk = ["#", "S1", "S2", "L", "E", "X"]
        for n in range(1, maxlen + 1):
            for seq in itertools.product(rk, repeat=n):
                if not any(k in V1 or k in V2 for k in seq):
                    continue
                for param in (None, "gfa1", "gfa2"):
                    i += 1
                    if i % nshards == shard:
                        yield {"seq": list(seq), "param": param, "vlevel": 1, "dialect": "rgfa"}
    return e


OTHER_VN = ["1.1", "1.2", "2.1", "3.0", "1", "x.x"]


def prop_vn(case):
    """A header that declares a version number other than 1.0 and 2.0: whatever a library makes of it (gfapy: not
    supported, VersionError), it makes the same of it in every order of the lines and through every entry point
    (validation level >= 1; level 0 documents that the cross-check with the header is skipped)."""
    seq, vn, vlevel, param = case["seq"], case["vn"], case["vlevel"], case["param"]
    segs = ["s%d" % i for i, k in enumerate(seq) if k in ("S1", "S2")]
    x, y = (segs[0], segs[-1]) if segs else ("X0", "Y0")
    base = [("H\tVN:Z:%s" % vn) if k == "H3" else make_line(k, i, x, y) for i, k in enumerate(seq)]
    kw = {"vlevel": vlevel}
    if param:
        kw["version"] = param
    outcomes = {}
    for perm in sorted(set(itertools.permutations(range(len(base))))):
        lines = [base[i] for i in perm]
        for how in ("add_line", "list"):
            if how == "list" and not segs:
                continue
            try:
                if how == "list":
                    g = gfapy.Gfa(lines, **kw)
                else:
                    g = gfapy.Gfa(**kw)
                    for l in lines:
                        g.add_line(l)
                    g.process_line_queue()
                out = ("ok", g.version, len([l for l in g.lines if l.record_type != "H" and not l.virtual]))
            except gfapy.VersionError:
                out = ("VersionError",)
            except GfapyError as e:
                out = (type(e).__name__,)
            except Exception as e:
                raise Violation("foreign", "VN:Z:%s, %s, order %s raised %s: %s" % (vn, how, [seq[i] for i in perm], type(e).__name__, str(e)[:200]), type(e).__name__)
            outcomes.setdefault(out, []).append((how, [seq[i] for i in perm]))
    if len(outcomes) > 1:
        raise Violation("order-dependent", "H VN:Z:%s with %s (param=%s, vlevel=%d): the outcome depends on the order / entry point:\n%s" % (
            vn, seq, param, vlevel, "\n".join("%s: %s" % (k, v[:4]) for k, v in sorted(outcomes.items(), key=str))), vn)
    return {"nt": len(seq) >= 2, "vn": vn, "outcome": sorted(outcomes, key=str)[0][0]}


def enum_vn(shard, nshards):
    i = 0
    kinds = ["H3", "#", "S1", "S2", "L", "E", "X", "H"]
    for n in (1, 2, 3):
        for seq in itertools.combinations_with_replacement(kinds, n):
            if seq.count("H3") != 1 or seq.count("L") > 1:
                continue
            for vn in OTHER_VN:
                for param in (None, "gfa1", "gfa2"):
                    i += 1
                    if i % nshards == shard:
                        yield {"seq": list(seq), "vn": vn, "vlevel": 1 + i % 3, "param": param}


def prop_doc(case):
    lines, version, want = case["lines"], case["param"], case["want"]
    kw = {"vlevel": case["vlevel"]}
    if version:
        kw["version"] = version
    ctx = "param=%s vlevel=%d entry=%s\n%s" % (version, case["vlevel"], case["entry"], "\n".join(lines))
    try:
        if case["entry"] == "list":
            g = gfapy.Gfa(list(lines), **kw)
        elif case["entry"] == "str":
            g = gfapy.Gfa("\n".join(lines), **kw)
        else:
            d = tempfile.mkdtemp(prefix="vfc13")
            try:
                p = os.path.join(d, "x.gfa")
                with open(p, "w") as f:
                    f.write("\n".join(lines) + "\n")
                g = gfapy.Gfa.from_file(p, **kw)
            finally:
                shutil.rmtree(d, ignore_errors=True)
        outcome = "ok"
    except gfapy.VersionError:
        outcome = "error"
    except GfapyError as e:
        if want != "error":
            raise Violation("other-error", "%s\nraised %s: %s" % (ctx, type(e).__name__, str(e)[:300]), type(e).__name__)
        outcome = "other"
    except Exception as e:
        raise Violation("foreign", "%s\nraised %s: %s" % (ctx, type(e).__name__, str(e)[:300]), type(e).__name__)
    if want == "error":
        if outcome == "ok":
            raise Violation("mixed-accepted", "%s\nmixed document accepted as %s" % (ctx, g.version), "")
        if outcome == "other" and not case.get("tolerate_other"):
            raise Violation("not-version-error", "%s\nrejected, but not with VersionError" % ctx, "")
    else:
        if outcome != "ok":
            raise Violation("valid-rejected", "%s\nVersionError for a valid %s document" % (ctx, want), want)
        if g.version != want:
            raise Violation("version", "%s\nversion %r expected %r" % (ctx, g.version, want), want)
        n = len([l for l in g.lines if l.record_type != "H" and not l.virtual])
        m = len([l for l in lines if not l.startswith("H\t") and l != "H"])
        dup = case.get("n_dropped", 0)
        if n != m - dup:
            raise Violation("line-count", "%s\n%d non-header lines, expected %d" % (ctx, n, m - dup), "")
    return {"nt": case.get("nt", False), "want": want, "entry": case["entry"]}


def prop_neutral(case):
    """A document without any version-specific line (header tags, comments): the version the Gfa reports is the
    same through every entry point and for every order, and so is what a later version-specific line makes of it."""
    lines, vlevel = case["lines"], case["vlevel"]
    seen = {}
    for entry in ("list", "str", "file", "add_line"):
        try:
            if entry == "list":
                g = gfapy.Gfa(list(lines), vlevel=vlevel)
            elif entry == "str":
                g = gfapy.Gfa("\n".join(lines), vlevel=vlevel)
            elif entry == "file":
                d = tempfile.mkdtemp(prefix="vfc13")
                try:
                    p_ = os.path.join(d, "x.gfa")
                    with open(p_, "w") as f:
                        f.write("\n".join(lines) + "\n")
                    g = gfapy.Gfa.from_file(p_, vlevel=vlevel)
                finally:
                    shutil.rmtree(d, ignore_errors=True)
            else:
                g = gfapy.Gfa(vlevel=vlevel)
                for l in lines:
                    g.add_line(l)
                g.process_line_queue()
            out = ("ok", g.version, len(g.lines))
        except GfapyError as e:
            out = (type(e).__name__,)
        except Exception as e:
            raise Violation("foreign", "neutral document through %s raised %s: %s\n%s" % (entry, type(e).__name__, str(e)[:200], "\n".join(lines)), type(e).__name__)
        seen.setdefault(out, []).append(entry)
    if len(seen) > 1:
        raise Violation("entry-dependent", "a document without version-specific lines gives, depending on the entry point: %s\n%s" % (
            sorted(seen.items(), key=str), "\n".join(lines)), "neutral")
    return {"nt": len(lines) >= 1, "neutral": sorted(seen, key=str)[0][1] if sorted(seen, key=str)[0][0] == "ok" else "refused"}


@st.composite
def st_neutral(draw):
    r = draw(st.randoms(use_true_random=False))
    pool = ["# a comment", "#", "H\txx:i:1", "H\tab:Z:text", "H\txx:i:1\tzz:f:0.5", "# another", "H\tco:Z:x"]
    lines = [gen.choice(r, pool) for _ in range(r.randint(0, 4))]
    if sum(1 for l in lines if "xx:i:1" in l) > 1:
        lines = [l for i, l in enumerate(lines) if "xx:i:1" not in l or i == [j for j, x in enumerate(lines) if "xx:i:1" in x][0]]
    return {"lines": lines, "vlevel": gen.choice(r, [0, 1, 2, 3])}


INJECT = {"gfa1": ["E\t*\tA+\tB-\t0\t1\t0\t1\t*", "S\tzz\t10\t*", "G\t*\tA+\tB-\t5\t*", "O\too\tA+", "U\tuu\tA", "F\tA\tr+\t0\t1\t0\t1\t*",
                   "X\tcustom", "H\tVN:Z:2.0"],
          "gfa2": ["L\tA\t+\tB\t-\t*", "S\tzz\t*", "C\tA\t+\tB\t-\t0\t*", "P\tpp\tA+\t*", "H\tVN:Z:1.0"]}


@st.composite
def st_doc(draw):
    r = draw(st.randoms(use_true_random=False))
    v = gen.choice(r, ["gfa1", "gfa2"])
    o = {"both_forms": False, "shuffle": False, "nseg": (1, 3), "comments": True}
    doc = gen.build_gfa1(r, o) if v == "gfa1" else gen.build_gfa2(r, o)
    lines = gen.doc_lines(doc)
    segs = [l[1][0] for l in doc["lines"] if l[0] == "S"]
    want = v
    param = gen.choice(r, [None, None, v])
    if gen.chance(r, 0.5):
        inj = gen.choice(r, INJECT[v]).replace("\tA", "\t" + segs[0]).replace("\tB", "\t" + segs[-1])
        lines.insert(r.randint(0, len(lines)), inj)
        want = "error"
    elif gen.chance(r, 0.3):
        param = "gfa1" if v == "gfa2" else "gfa2"
        want = "error"
    order = list(range(len(lines)))
    r.shuffle(order)
    lines = [lines[i] for i in order]
    # non-triviality: a queued line before the first deciding one
    nt = False
    for l in lines:
        rt = l.split("\t")[0]
        if rt in ("S", "E", "F", "G", "O", "U") or (rt == "H" and "VN:Z" in l):
            break
        if rt in ("L", "C", "P") or rt not in ("H", "#", "S"):
            nt = param is None
    return {"lines": lines, "param": param, "want": want, "vlevel": gen.choice(r, [1, 2, 3]),
            "entry": gen.choice(r, ["list", "str", "file"]), "nt": nt, "tolerate_other": False}


def parts(tier):
    q = tier == "quick"
    return [Part("kinds", prop_kinds, enum=enum_kinds(3 if q else 4), exhaustive=True, quick_shards=8,
                 note="all sequences of line kinds up to the length bound x version parameter x vlevel"),
            Part("vn-other", prop_vn, enum=enum_vn, exhaustive=True, quick_shards=2,
                 note="a VN header other than 1.0/2.0 with up to two further lines: every order and both entry points give the same outcome"),
            Part("neutral", prop_neutral, strategy=st_neutral(), n=60 if q else 400,
                 note="documents of header tags and comments only: same version through Gfa(list), Gfa(str), from_file and add_line"),
            Part("docs", prop_doc, strategy=st_doc(), n=600 if q else 4000, quick_shards=2)]
