"""C01 Parse -> write round trip preserves every record, field and tag."""
import os
import shutil
import tempfile

from hypothesis import strategies as st

from .. import gen
from .. import grammar as G
from ..env import gfapy, GfapyError
from ..runner import Part, Violation

ID = "C01"
ATHERIS = ['doc']  # parts also driven by libFuzzer in the thorough tier (vf/runner.py: all_parts)
RULE = ("valid GFA1/GFA2 documents built constructively (all record types, all 7 tag datatypes, "
        "placeholders, both complement forms of a link, repeated header tags) x vlevel 0-3 x "
        "explicit/auto version x entry point {str, str+newline, list, file LF, file CRLF}; "
        "non-trivial = >=3 record types and >=1 referencing record and (a B/H/J tag or a repeated "
        "header tag); distinct by hash of (document, configuration). Single-line part: non-trivial "
        "= line has >=1 tag of a non-string datatype or an alignment/list field")
ASSUMPTIONS = [
    "valid document = conforms to the independent grammar (vf/grammar.py), identifiers unique, every mention defined, GFA1 paths supported by links",
    "multi-line O/U groups are excluded here (their merge is C17's subject, not one of C01's listed normalisations)",
    "a placeholder and a specified overlap between the same two oriented segment ends are never mixed",
    "a custom header tag repeated over several H lines keeps one datatype",
    "input spelling is never demanded back: values are compared through grammar.canon; only gfapy's own output is compared literally with itself (fixed point)",
]

ENTRIES = ["str", "str_nl", "list", "file_lf", "file_crlf"]
REFERENCING = set("LCPEFGOU")


def _load(lines, cfg):
    kw = {"vlevel": cfg["vlevel"]}
    if cfg["explicit"]:
        kw["version"] = cfg["version"]
    e = cfg["entry"]
    if e == "str":
        return gfapy.Gfa("\n".join(lines), **kw)
    if e == "str_nl":
        return gfapy.Gfa("\n".join(lines) + "\n", **kw)
    if e == "list":
        return gfapy.Gfa(list(lines), **kw)
    d = tempfile.mkdtemp(prefix="vfc01")
    try:
        p = os.path.join(d, "in.gfa")
        nl = "\n" if e == "file_lf" else "\r\n"
        with open(p, "w", newline="") as f:
            f.write(nl.join(lines) + nl)
        return gfapy.Gfa.from_file(p, **kw)
    finally:
        shutil.rmtree(d, ignore_errors=True)


def _write_via(gfa, cfg):
    """str(gfa) or to_file content, according to the entry point."""
    if cfg["entry"].startswith("file"):
        d = tempfile.mkdtemp(prefix="vfc01")
        try:
            p = os.path.join(d, "out.gfa")
            gfa.to_file(p)
            with open(p, newline="") as f:
                t = f.read()
            if t.endswith("\n"):
                t = t[:-1]
            return t
        finally:
            shutil.rmtree(d, ignore_errors=True)
    return str(gfa)


def prop_doc(case):
    doc, cfg = case["doc"], case["cfg"]
    version = doc["version"]
    cfg = dict(cfg, version=version)
    lines = gen.doc_lines(doc)
    text = "\n".join(lines)
    expected = G.canon_doc(text, version)
    try:
        gfa = _load(lines, cfg)
    except GfapyError as e:
        raise Violation("rejected", "valid document rejected: %s: %s\n%s" % (type(e).__name__, str(e)[:300], text),
                        type(e).__name__)
    except Exception as e:
        raise Violation("foreign", "valid document crashed: %s: %s\n%s" % (type(e).__name__, str(e)[:300], text),
                        type(e).__name__)
    if gfa.version != version:
        raise Violation("version", "version %r, expected %r\n%s" % (gfa.version, version, text))
    out = _write_via(gfa, cfg)
    if out != str(gfa):
        raise Violation("to_file", "to_file content differs from str(gfa)")
    for marker in ("# INVALID", "GFAPY_virtual_line", "?record_type?"):
        if marker in out:
            raise Violation("marker", "written text contains %r\n%s\n-- input --\n%s" % (marker, out, text), marker)
    try:
        actual = G.canon_doc(out, version)
    except Exception as e:
        raise Violation("unparsable-output", "written text not parsable by the grammar: %s\n%s" % (e, out))
    if actual != expected:
        raise Violation("records", "written records differ: %s\n-- input --\n%s\n-- output --\n%s" % (
            G.counter_diff(expected, actual), text, out))
    # counts through the API
    n_h = sum(1 for l in doc["lines"] if l[0] == "H")
    if gfa.n_input_header_lines != n_h:
        raise Violation("n_header", "n_input_header_lines %d != %d" % (gfa.n_input_header_lines, n_h))
    if len(gfa.lines) != sum(expected.values()):
        raise Violation("n_lines", "len(gfa.lines)=%d, expected %d" % (len(gfa.lines), sum(expected.values())))
    # fixed point (gfapy compared with itself; same vlevel, version detection left to gfapy)
    try:
        g2 = gfapy.Gfa(out, vlevel=cfg["vlevel"])
        out2 = str(g2)
    except Exception as e:
        raise Violation("reparse", "own output not re-parsable: %s: %s\n%s" % (type(e).__name__, str(e)[:300], out),
                        type(e).__name__)
    if out2 != out:
        raise Violation("fixed-point", "write(parse(write(parse(T)))) differs\n-- first --\n%s\n-- second --\n%s" % (out, out2))
    rts = set(l[0] for l in doc["lines"])
    tag_types = set(t[1] for l in doc["lines"] for t in l[2])
    hnames = [t[0] for l in doc["lines"] if l[0] == "H" for t in l[2]]
    nt = len(rts) >= 3 and bool(rts & REFERENCING) and (bool(tag_types & set("BHJ")) or len(hnames) != len(set(hnames)))
    return {"nt": nt, "version": version, "vlevel": cfg["vlevel"], "entry": cfg["entry"],
            "explicit": cfg["explicit"]}


def prop_line(case):
    version, line, vlevel = case["version"], case["line"], case["vlevel"]
    rec = G.Rec.from_plain(line, version)
    s = rec.text()
    exp = G.canon_rec(rec)
    try:
        l = gfapy.Line(s, version=version, vlevel=vlevel)
        out = str(l)
    except GfapyError as e:
        raise Violation("line-rejected", "valid line rejected: %s: %s\n%s" % (type(e).__name__, str(e)[:300], s), type(e).__name__)
    except Exception as e:
        raise Violation("line-foreign", "valid line crashed: %s: %s\n%s" % (type(e).__name__, str(e)[:300], s), type(e).__name__)
    if "# INVALID" in out and rec.rt != "#":
        raise Violation("line-marker", "INVALID marker in %r (from %r)" % (out, s))
    try:
        act = G.canon_line(out, version)
    except Exception as e:
        raise Violation("line-unparsable", "%r -> %r: %s" % (s, out, e))
    if act != exp:
        raise Violation("line-records", "%r written as %r" % (s, out))
    try:
        out2 = str(gfapy.Line(out, version=version, vlevel=vlevel))
    except Exception as e:
        raise Violation("line-reparse", "%r not re-parsable: %s" % (out, e), type(e).__name__)
    if out2 != out:
        raise Violation("line-fixed-point", "%r -> %r -> %r" % (s, out, out2))
    nt = any(t[1] in "ifJHB" for t in line[2]) or rec.rt in "LCPEFGOU"
    return {"nt": nt, "rt": rec.rt if rec.rt in "HSLCPEFGOU#" else "custom"}


@st.composite
def st_case(draw):
    r = draw(st.randoms(use_true_random=False))
    v = gen.choice(r, ["gfa1", "gfa2"])
    doc = gen.build_gfa1(r) if v == "gfa1" else gen.build_gfa2(r, {"zero_len": 0.05})
    cfg = {"vlevel": r.randrange(4), "explicit": gen.chance(r, 0.5), "entry": gen.choice(r, ENTRIES)}
    return {"doc": {"version": doc["version"], "lines": doc["lines"]}, "cfg": cfg}


@st.composite
def st_line_case(draw):
    r = draw(st.randoms(use_true_random=False))
    v = gen.choice(r, ["gfa1", "gfa2"])
    doc = gen.build_gfa1(r, {"shuffle": False}) if v == "gfa1" else gen.build_gfa2(r, {"shuffle": False})
    line = gen.choice(r, doc["lines"])
    return {"version": v, "line": line, "vlevel": r.randrange(4)}


def parts(tier):
    if tier == "quick":
        return [Part("doc", prop_doc, strategy=st_case(), n=500),
                Part("line", prop_line, strategy=st_line_case(), n=1200)]
    return [Part("doc", prop_doc, strategy=st_case(), n=3000),
            Part("line", prop_line, strategy=st_line_case(), n=4000)]
