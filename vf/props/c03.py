"""C03 The graph does not depend on the order of the lines."""
import itertools

from hypothesis import strategies as st

from .. import gen, grammar as G, model as M, observe as O
from ..env import gfapy, GfapyError
from ..runner import Part, Violation

ID = "C03"
ATHERIS = ['perm']  # parts also driven by libFuzzer in the thorough tier (vf/runner.py: all_parts)
RULE = ("valid reference-rich documents (paths over links stored in either complement form, groups over "
        "groups, fragments, gaps; a quarter of the GFA1 documents crowded with parallel links and paths naming their overlaps) and permutations of their lines: random shuffles, reversal, 'referencing "
        "records first', 'segments last' (quick) and ALL n! orders for documents of <= 6 lines (thorough part "
        "'all-orders', exhaustive per document); each order is loaded with automatic version detection; oracle = "
        "full observation equal to that of the generation order AND no placeholder left AND back-reference "
        "collections equal to the model's; non-trivial = the permutation puts >= 1 referencing record before a "
        "record it names and the document has >= 2 kinds of referencing record; distinct by hash of (doc, perm)")
ASSUMPTIONS = [
    "documents are valid (see C01); a link is not given in both complement forms here, because the documented rule 'first arrival and its tags win' is itself order dependent",
    "multi-line group definitions are excluded (items are concatenated in arrival order by definition; C17)",
    "placeholder and specified overlaps never mixed on one oriented end pair",
]
REF = set("LCPEFGOU")


def _load(lines, version, cfg):
    return gfapy.Gfa(list(lines), vlevel=cfg.get("vlevel", 1), **({"version": version} if cfg.get("explicit") else {}))


def _is_nt(doc, perm):
    recs = [G.Rec.from_plain(l, doc["version"]) for l in doc["lines"]]
    kinds = set(r.rt for r in recs if r.rt in REF)
    if len(kinds) < 2:
        return False
    pos = {i: p for p, i in enumerate(perm)}
    defs = {}
    for i, r in enumerate(recs):
        n = M.name_of(r)
        if n is not None and not (r.version == "gfa1" and r.rt in "LC"):
            defs[n] = i
    for i, r in enumerate(recs):
        for n, _role, _o in M.mentions(r):
            if n in defs and pos[i] < pos[defs[n]]:
                return True
    return False


def check_doc_perm(doc, perm, cfg, ref_obs=None):
    version = doc["version"]
    lines = gen.doc_lines(doc)
    model = M.ModelDoc(version)
    for l in doc["lines"]:
        model.add(G.Rec.from_plain(l, version))  # (further lines of a group are merged into it)

    def build(order, what):
        try:
            return _load([lines[i] for i in order], version, cfg)
        except GfapyError as e:
            raise Violation("rejected", "%s order rejected: %s: %s\n%s" % (what, type(e).__name__, str(e)[:300],
                            "\n".join(lines[i] for i in order)), type(e).__name__)
        except Exception as e:
            raise Violation("foreign", "%s order crashed: %s: %s\n%s" % (what, type(e).__name__, str(e)[:300],
                            "\n".join(lines[i] for i in order)), type(e).__name__)
    if ref_obs is None:
        g0 = build(range(len(lines)), "generation")
        ref_obs = O.observe(g0)
    g = build(perm, "permuted")
    if g.version != version and any(x[:1] in "SLCPEFGOU" for x in lines):
        # (a document without any line of a record type that belongs to a version has no version of its own)
        raise Violation("version", "version %r for order\n%s" % (g.version, "\n".join(lines[i] for i in perm)))
    if O.placeholders(g) or any(l.virtual for l in g.lines):
        raise Violation("placeholder-left", "placeholder remains after reading the whole document:\n%s\n-- order --\n%s" % (
            g, "\n".join(lines[i] for i in perm)))
    ob = O.observe(g)
    if ob != ref_obs:
        raise Violation("order-dependent", "observation differs from generation order:\n%s\n-- order --\n%s" % (
            O.obs_diff(ref_obs, ob), "\n".join(lines[i] for i in perm)))
    probs = O.check_refs_against_model(g, model)
    if probs:
        raise Violation("model-refs", "%s\n-- order --\n%s" % ("\n".join(probs[:5]), "\n".join(lines[i] for i in perm)))
    probs = O.invariants(g)
    if probs:
        raise Violation("invariant", "%s\n-- order --\n%s" % ("\n".join(probs[:5]), "\n".join(lines[i] for i in perm)))
    return ref_obs


def prop(case):
    doc, perm, cfg = case["doc"], case["perm"], case.get("cfg", {})
    perm = _keep_group_order(doc, perm)
    check_doc_perm(doc, perm, cfg)
    return {"nt": _is_nt(doc, perm), "version": doc["version"], "perm_kind": case.get("kind", "random")}


def prop_all(case):
    """All n! orders of one small document."""
    doc, cfg = case["doc"], case.get("cfg", {})
    n = len(doc["lines"])
    ref = None
    nt = 0
    for perm in itertools.permutations(range(n)):
        if _keep_group_order(doc, perm) != list(perm):
            continue  # (the lines of one group keep their order)
        ref = check_doc_perm(doc, list(perm), cfg, ref)
        nt += _is_nt(doc, perm)
    return {"nt": nt > 0, "orders": n, "version": doc["version"]}


DOC_OPTS = {"both_forms": False, "shuffle": False, "split_groups": 0.3, "twin_custom": 0.3, "zero_len": 0.08, "near_names": 0.3}


def _keep_group_order(doc, perm):
    """Lines that continue one group (same record type and identifier) keep their relative order in every
    permutation: their order is the order of the items, which is content, not arrival."""
    groups = {}
    for i, l in enumerate(doc["lines"]):
        if l[0] in "OU" and l[1][0] != "*":
            groups.setdefault((l[0], l[1][0]), []).append(i)
    perm = list(perm)
    for idxs in groups.values():
        if len(idxs) > 1:
            pos = sorted(perm.index(i) for i in idxs)
            for p_, i in zip(pos, sorted(idxs)):
                perm[p_] = i
    return perm


def _targeted(r, doc):
    n = len(doc["lines"])
    k = r.randrange(5)
    idx = list(range(n))
    if k == 0:
        return list(reversed(idx)), "reversed"
    if k == 1:
        rank = {"P": 0, "O": 0, "U": 0, "G": 1, "F": 1, "L": 2, "C": 2, "E": 2}
        return sorted(idx, key=lambda i: rank.get(doc["lines"][i][0], 3)), "referencing-first"
    if k == 2:
        return sorted(idx, key=lambda i: doc["lines"][i][0] in ("S", "H")), "segments-and-header-last"
    r.shuffle(idx)
    return idx, "random"


def _multi_link_doc(r, small=False):
    """GFA1 documents crowded with parallel links (same oriented ends, different overlaps, either form) and paths
    that name their overlaps: which link a path step means depends on the overlap alone."""
    from . import c12
    for _ in range(30):
        lines = c12.build_multi(r)
        if not small or len(lines) <= 6:
            break
    recs = [G.split_line(x, "gfa1") for x in lines]
    seen, out = set(), []
    for x in recs:
        if x.rt == "L":
            k = M.link_form_key(x.pos)
            if k in seen:
                continue  # (this check compares with the document as written: one form per link)
            seen.add(k)
        out.append(x)
    if small:
        used = set(mm[0] for x in out for mm in M.mentions(x))
        out = [x for x in out if x.rt != "S" or x.pos[0] in used][:6]
        m = M.ModelDoc("gfa1", out)
        while not m.is_closed():
            und = m.undefined_mentions()
            ml = [p_ for p_, _s in m.missing_links()]
            m.recs = [x for x in m.recs if not any(mm[0] in und for mm in M.mentions(x)) and not any(x is p_ for p_ in ml)]
        out = m.recs
    return {"version": "gfa1", "lines": [x.plain() for x in out]}


@st.composite
def st_case(draw):
    r = draw(st.randoms(use_true_random=False))
    v = gen.choice(r, ["gfa1", "gfa2"])
    if gen.chance(r, 0.25):
        v = "gfa1"
        doc = _multi_link_doc(r)
    else:
        doc = gen.build_gfa1(r, DOC_OPTS) if v == "gfa1" else gen.build_gfa2(r, DOC_OPTS)
    perm, kind = _targeted(r, doc)
    return {"doc": {"version": v, "lines": doc["lines"]}, "perm": perm, "kind": kind,
            "cfg": {"vlevel": gen.choice(r, [0, 1, 1, 2, 3]), "explicit": gen.chance(r, 0.3)}}


@st.composite
def st_small(draw):
    r = draw(st.randoms(use_true_random=False))
    v = gen.choice(r, ["gfa1", "gfa2"])
    o = dict(DOC_OPTS, nseg=(1, 2), headers=False, comments=False, tags=False)
    if gen.chance(r, 0.3):
        return {"doc": _multi_link_doc(r, small=True), "cfg": {"vlevel": 1, "explicit": False}}
    for _ in range(20):
        doc = gen.build_gfa1(r, o) if v == "gfa1" else gen.build_gfa2(r, o)
        if 3 <= len(doc["lines"]) <= 6:
            break
    doc["lines"] = doc["lines"][:6]
    # truncation may cut a definition: keep only lines whose mentions are defined
    m = M.ModelDoc.from_doc(doc)
    while not m.is_closed():
        und = m.undefined_mentions()
        ml = [p for p, _s in m.missing_links()]
        m.recs = [x for x in m.recs if not any(mm[0] in und for mm in M.mentions(x)) and not any(x is p for p in ml)]
    return {"doc": {"version": v, "lines": [x.plain() for x in m.recs]}, "cfg": {"vlevel": 1, "explicit": False}}


def parts(tier):
    if tier == "quick":
        return [Part("perm", prop, strategy=st_case(), n=500, quick_shards=2),
                Part("all-orders", prop_all, strategy=st_small(), n=12, quick_shards=2)]
    return [Part("perm", prop, strategy=st_case(), n=2500),
            Part("all-orders", prop_all, strategy=st_small(), n=40,
                 note="every order of each generated document of <= 6 lines is tried (exhaustive per document)")]
