"""C04 Validation accepts exactly the documents the GFA grammar allows."""
import itertools

from hypothesis import strategies as st

from .. import gen, grammar as G, model as M
from ..env import gfapy, GfapyError
from ..runner import Part, Violation

ID = "C04"
RULE = ("part 'fields' (exhaustive): for each of the 7 tag datatypes and 17 positional slots, ALL strings up to "
        "length L (quick 3-4, thorough 4-5) over a per-datatype alphabet containing every character class the "
        "grammar distinguishes plus look-alikes ('_', space, '+', '.', 'e', '$', '*', ',', full-width digit, "
        "lower-case hex, DEL, non-ASCII), placed in a carrier line at vlevel 1, 2, 3, stand-alone and (closed "
        "carriers) inside a Gfa; part 'pool': every single-character insertion/deletion/replacement of a pool of "
        "valid values; oracle = language equality: accepted (construction, line.validate(), reading the field, "
        "writing, Gfa.validate() all quiet) <=> the independent grammar accepts; a foreign exception is neither. "
        "part 'docs': valid documents with ONE semantic mutation whose verdict the model knows (positional count "
        "+-1, malformed/duplicate tag name, predefined tag with wrong type, LN != length, path overlap count, "
        "beg > end, '$' on a non-last position, undefined reference / missing link, rGFA restrictions) and their "
        "valid neighbours. non-trivial (fields/pool) = the string is within one deletion/replacement of the "
        "language boundary; part 'long': longer values from the value generators (numbers up to 12 digits, CIGARs, traces, "
        "JSON, arrays, lists of identifiers) with 0-3 random edits; a quarter of the enumerated strings and half of the edited values are first handled at level 0 "
        "(parsed, read, written, loaded into a Gfa) in the same process - a verdict must not depend on what was parsed before; (docs) every mutated document; distinct by (slot, string, vlevel) / case hash")
ASSUMPTIONS = [
    "not judged (counted as provisional): scalar JSON values; GFA1 names containing a comma inside lists; floats that overflow to inf; custom record types P, C, L (documented limitation)",
    "strings never contain tab or newline (they would change the field/line structure)",
    "'$' rule is tested only on segments that carry their sequence (gfapy checks '$' against the sequence, the specification against slen; only cases where both agree are generated)",
    "F-line beg <= end is not demanded (neither specification text nor gfapy documentation state it for fragments)",
    "a position beyond the segment length without '$' is not in the property's list of cross-field rules and is not generated",
]

FW = "\uff15"  # full-width digit five
ALPHA = {
    "i": "019+-_ .e" + FW + "a",
    "f": "01.eE+-_ naif",
    "A": "a~! \x7f\u00e9",
    "Z": "a ~\x7f\u00e9\x1f",
    "J": "[]{}\":,1a nul",
    "H": "09AFafG",
    "B": "cCfsI,125-+.e ",
    "segment_name_gfa1": "a*=+-,1 \x7f",
    "path_name_gfa1": "a*=+-,1 \x7f",
    "sequence_gfa1": "aA*=.1- ",
    "orientation": "+-*a ",
    "alignment_gfa1": "019MIDNSHPX=*,J ",
    "position_gfa1": "019-+$ " + FW,
    "alignment_list_gfa1": "01M*,ID ",
    "oriented_identifier_list_gfa1": "ab+-, *",
    "identifier_gfa2": "a*+- \x7f1",
    "optional_identifier_gfa2": "a*+- \x7f1",
    "oriented_identifier_gfa2": "a*+- \x7f1",
    "identifier_list_gfa2": "ab+- *",
    "oriented_identifier_list_gfa2": "ab+- *",
    "position_gfa2": "019$-+ " + FW,
    "sequence_gfa2": "a* \x7f\u00e9=",
    "alignment_gfa2": "019MIDPX=*,$ ",
    "optional_integer": "01*+-_ " + FW,
    "slen": "019+-_ " + FW,
    "custom_record_type": "XSEab#1 \x7f",
}
# (slot) -> (version, datatype, carrier with {} for the string, field name, closing lines or None)
S1 = ["S\tA\t*", "S\tB\t*"]
S2 = ["S\tA\t10\t*", "S\tB\t10\t*"]
SLOTS = {
    "i": ("gfa1", "i", "S\tA\t*\txx:i:{}", "xx", []),
    "f": ("gfa1", "f", "S\tA\t*\txx:f:{}", "xx", []),
    "A": ("gfa1", "A", "S\tA\t*\txx:A:{}", "xx", []),
    "Z": ("gfa1", "Z", "S\tA\t*\txx:Z:{}", "xx", []),
    "J": ("gfa1", "J", "S\tA\t*\txx:J:{}", "xx", []),
    "H": ("gfa1", "H", "S\tA\t*\txx:H:{}", "xx", []),
    "B": ("gfa1", "B", "S\tA\t*\txx:B:{}", "xx", []),
    "segment_name_gfa1": ("gfa1", "segment_name_gfa1", "S\t{}\t*", "name", []),
    "path_name_gfa1": ("gfa1", "path_name_gfa1", "P\t{}\tA+\t*", "path_name", S1[:1]),
    "sequence_gfa1": ("gfa1", "sequence_gfa1", "S\tA\t{}", "sequence", []),
    "orientation": ("gfa1", "orientation", "L\tA\t{}\tB\t+\t*", "from_orient", S1),
    "alignment_gfa1": ("gfa1", "alignment_gfa1", "L\tA\t+\tB\t+\t{}", "overlap", S1),
    "position_gfa1": ("gfa1", "position_gfa1", "C\tA\t+\tB\t+\t{}\t*", "pos", S1),
    "alignment_list_gfa1": ("gfa1", "alignment_list_gfa1", "P\tp\tA+,B-\t{}", "overlaps", None),
    "oriented_identifier_list_gfa1": ("gfa1", "oriented_identifier_list_gfa1", "P\tp\t{}\t*", "segment_names", None),
    "identifier_gfa2": ("gfa2", "identifier_gfa2", "S\t{}\t10\t*", "sid", []),
    "slen": ("gfa2", "i", "S\tA\t{}\t*", "slen", []),
    "sequence_gfa2": ("gfa2", "sequence_gfa2", "S\tA\t10\t{}", "sequence", []),
    "optional_identifier_gfa2": ("gfa2", "optional_identifier_gfa2", "E\t{}\tA+\tB-\t0\t1\t0\t1\t*", "eid", S2),
    "oriented_identifier_gfa2": ("gfa2", "oriented_identifier_gfa2", "E\t*\t{}\tB-\t0\t1\t0\t1\t*", "sid1", None),
    "position_gfa2": ("gfa2", "position_gfa2", "E\t*\tA+\tB-\t{}\t99999$\t0\t1\t*", "beg1", None),
    "alignment_gfa2": ("gfa2", "alignment_gfa2", "E\t*\tA+\tB-\t0\t1\t0\t1\t{}", "alignment", S2),
    "optional_integer": ("gfa2", "optional_integer", "G\t*\tA+\tB-\t10\t{}", "var", S2),
    "identifier_list_gfa2": ("gfa2", "identifier_list_gfa2", "U\tu\t{}", "items", None),
    "oriented_identifier_list_gfa2": ("gfa2", "oriented_identifier_list_gfa2", "O\to\t{}", "items", None),
    "custom_record_type": ("gfa2", "custom_record_type", "{}\tfoo", "record_type", []),
}
QUICK_L = {"i": 4, "f": 4, "H": 4, "B": 4, "J": 4, "position_gfa2": 4, "alignment_gfa1": 3, "alignment_gfa2": 3}
THOROUGH_L = {"i": 5, "f": 5, "H": 5, "B": 5, "J": 5, "position_gfa2": 5, "optional_integer": 5, "slen": 5,
              "position_gfa1": 5, "A": 3, "Z": 4}


def model_accepts(slot, s):
    version, dt, _carrier, _fn, _closing = SLOTS[slot]
    if slot == "alignment_list_gfa1":
        return G.accepts(dt, s) and (len(s.split(",")) in (1, 2))
    if slot == "optional_identifier_gfa2":
        return G.accepts(dt, s)
    if slot == "custom_record_type":
        return G.accepts(dt, s) and s not in G.GFA2_RESERVED_TYPES and not s.startswith("#")
    if slot == "sequence_gfa2":
        return G.accepts(dt, s)
    return G.accepts(dt, s)


def model_judged(slot, s):
    version, dt, _c, _f, _cl = SLOTS[slot]
    if "\t" in s:
        return False
    if "\n" in s:
        # a newline inside a line belongs to no field grammar; only at the very end of the text handed to
        # gfapy.Line it may pass for a line terminator, which is not judged
        return not _c.format(s).endswith("\n")
    if slot == "custom_record_type":
        # a line starting with '#' is a comment, not a custom record
        return s not in ("P", "C", "L") and not s.startswith("#")
    if slot == "position_gfa2" and G.accepts(dt, s) and int(s.rstrip("$")) > 99999:
        return False  # (beyond the end position of the carrier line: begin > end is another rule)
    if slot == "sequence_gfa2":
        return not (len(s) >= 5 and s[2] == ":" and s[4] == ":")
    if slot == "identifier_gfa2":
        return not (len(s) >= 5 and s[2] == ":" and s[4] == ":")
    if slot == "oriented_identifier_list_gfa1":
        if G.accepts(dt, s):
            return all("," not in e for e in [s]) and all(
                G.RE["segment_name_gfa1"].fullmatch(e[:-1]) is not None and e[-1:] in ("+", "-") and len(e) >= 2
                for e in s.split(","))
        return True
    return G.judged(dt, s)


def warm_up(slot, s):
    """The same text handled without validation first (level 0: parsed lazily, read, written, put in a Gfa):
    whatever that leaves behind in the library must not change the verdict at level >= 1."""
    version, dt, carrier, fn, closing = SLOTS[slot]
    text = carrier.format(s)
    for step in range(3):
        try:
            if step == 0:
                l = gfapy.Line(text, version=version, vlevel=0)
                l.get(fn)
                str(l)
            elif step == 1 and closing is not None:
                str(gfapy.Gfa(list(closing) + [text], version=version, vlevel=0))
            elif step == 2:
                gfapy.Line(text, vlevel=0).validate()
        except Exception:
            pass


def gfapy_verdict(slot, s, vlevel):
    version, dt, carrier, fn, closing = SLOTS[slot]
    text = carrier.format(s)
    stage = "Line"
    try:
        l = gfapy.Line(text, version=version, vlevel=vlevel)
        if slot == "custom_record_type" and l.record_type != s:
            return "refuse", "dispatched as %r" % l.record_type
        stage = "validate"
        l.validate()
        stage = "get"
        l.get(fn)
        stage = "str"
        w = str(l)
        if "# INVALID" in w:
            return "refuse", "INVALID marker"
        if closing is not None:
            stage = "Gfa"
            g = gfapy.Gfa(list(closing) + [text], version=version, vlevel=vlevel)
            stage = "Gfa.validate"
            g.validate()
            stage = "Gfa.str"
            w = str(g)
            if "# INVALID" in w:
                return "refuse", "INVALID marker"
            stage = "Gfa(auto version)"
            g = gfapy.Gfa(list(closing) + [text], vlevel=vlevel)
            g.validate()
            if g.version != version:
                return "refuse", "auto-detected version %s" % g.version
    except GfapyError as e:
        return "refuse", "%s at %s" % (type(e).__name__, stage)
    except Exception as e:
        return "foreign", "%s at %s: %s" % (type(e).__name__, stage, str(e)[:150])
    return "accept", None


def near_boundary(slot, s):
    want = model_accepts(slot, s)
    alpha = ALPHA[slot]
    for i in range(len(s)):
        t = s[:i] + s[i + 1:]
        if t and model_accepts(slot, t) != want:
            return True
        for c in alpha:
            if c != s[i] and model_accepts(slot, s[:i] + c + s[i + 1:]) != want:
                return True
    return False


def prop_field(case):
    slot, s, vlevel = case["slot"], case["s"], case["vlevel"]
    if not model_judged(slot, s):
        return {"nt": False, "provisional": True}
    want = model_accepts(slot, s)
    if case.get("warm"):
        warm_up(slot, s)
    got, info = gfapy_verdict(slot, s, vlevel)
    if got == "foreign":
        raise Violation("foreign", "slot %s string %r vlevel %d: %s" % (slot, s, vlevel, info), "%s/%s" % (slot, info.split(" ")[0]))
    if want and got != "accept":
        raise Violation("valid-refused", "slot %s: %r is valid by the grammar but refused at vlevel %d (%s)" % (slot, s, vlevel, info), slot)
    if not want and got == "accept":
        raise Violation("invalid-accepted", "slot %s: %r is not in the grammar but accepted at vlevel %d (line %r)" % (
            slot, s, vlevel, SLOTS[slot][2].format(s)), slot)
    return {"nt": near_boundary(slot, s), "slot": slot, "accept": want, "after_level0": bool(case.get("warm"))}


def enum_fields(tier):
    def e(shard, nshards):
        i = 0
        for slot in SLOTS:
            L = (QUICK_L if tier == "quick" else THOROUGH_L).get(slot, 3 if tier == "quick" else 4)
            alpha = ALPHA[slot]
            for n in range(0, L + 1):  # (0: the empty string)
                for tup in itertools.product(alpha, repeat=n):
                    i += 1
                    if i % nshards != shard:
                        continue
                    s = "".join(tup)
                    for vlevel in ((1, 2, 3) if tier != "quick" else (1 + (i // nshards) % 3,)):
                        yield {"slot": slot, "s": s, "vlevel": vlevel, "warm": (i // nshards) % 4 == 0}
    return e


POOL = {
    "i": ["0", "-12", "+7", "2147483648", "007"],
    "f": ["1.5", "-0.25", "1e5", "2.5E-3", ".5", "+3.0", "10"],
    "A": ["x", "~"],
    "Z": ["hello world", "a:b", "*"],
    "J": ['{"a":1}', '[1,"b",null]', '[]', '{"k":[1,{"z":true}]}', '[1.5e3]'],
    "H": ["00", "A0FF", "1234ABCD"],
    "B": ["c,-128,127", "C,0,255", "s,-32768,32767", "S,65535", "i,-2147483648,2147483647", "I,4294967295",
          "f,1.5,-2e3,.5", "c,1"],
    "segment_name_gfa1": ["seg1", "a+b", "x,y"],
    "sequence_gfa1": ["ACGT", "*", "acgt=.N"],
    "alignment_gfa1": ["*", "10M", "2M1I3D4P", "5=2X3S1H2N"],
    "position_gfa1": ["0", "42"],
    "alignment_list_gfa1": ["*", "5M", "5M,3M", "*,*"],
    "oriented_identifier_list_gfa1": ["A+", "A+,B-", "ab-,ba+"],
    "identifier_gfa2": ["seg1", "a+b", "*x"],
    "optional_identifier_gfa2": ["*", "e1"],
    "oriented_identifier_gfa2": ["A+", "xy-", "a+-"],
    "position_gfa2": ["0", "15", "15$", "0$"],
    "sequence_gfa2": ["ACGT", "*", "a=b"],
    "alignment_gfa2": ["*", "10M", "2M1I3D4P", "12,3,4", "7,8"],
    "optional_integer": ["*", "10", "-5"],
    "slen": ["10", "0", "+5"],
    "identifier_list_gfa2": ["A", "A B", "a b c"],
    "oriented_identifier_list_gfa2": ["A+", "A+ B-", "a- b+ c+"],
    "custom_record_type": ["X", "XY", "x1"],
    "orientation": ["+", "-"],
    "path_name_gfa1": ["p1", "a+b"],
}
EXTRA = " _$*+-.,:e0M" + FW + "\x7f\u00e9\n"


def enum_pool(shard, nshards):
    i = 0
    for slot, vals in POOL.items():
        alpha = sorted(set(ALPHA[slot] + EXTRA))
        seen = set()
        for v in vals:
            muts = [v]
            for p in range(len(v) + 1):
                for c in alpha:
                    muts.append(v[:p] + c + v[p:])
                if p < len(v):
                    muts.append(v[:p] + v[p + 1:])
                    for c in alpha:
                        muts.append(v[:p] + c + v[p + 1:])
            for m in muts:
                if m == "" or m in seen:
                    continue
                seen.add(m)
                i += 1
                if i % nshards == shard:
                    yield {"slot": slot, "s": m, "vlevel": 1 + i % 3, "warm": (i // nshards) % 2 == 0}


# ------------------------------------------------------------------ longer strings

def _valid_value(r, slot):
    """A (usually) valid, longer value for the slot, drawn from the value generators of vf/gen.py."""
    dt = SLOTS[slot][1]
    if slot in "ifZJHBA" and len(slot) == 1:
        return gen.gen_tag_value(r, slot, gen.chance(r, 0.5))
    if slot in ("alignment_gfa1",):
        return gen.gen_cigar(r, "MIDNSHPX=", maxops=6, maxlen=300)
    if slot == "alignment_gfa2":
        return gen.gen_alignment_gfa2(r)
    if slot == "alignment_list_gfa1":
        return ",".join(gen.gen_cigar(r, "MIDP", maxops=3) for _ in range(r.randint(1, 4)))
    if slot in ("position_gfa1", "slen"):
        return str(r.randint(0, 10 ** r.randint(1, 12)))
    if slot == "position_gfa2":
        return str(r.randint(0, 10 ** r.randint(1, 4))) + gen.choice(r, ["", "$"])  # (the carrier's end position is 99999$)
    if slot == "optional_integer":
        return gen.choice(r, ["*", str(r.randint(-10 ** 9, 10 ** 9))])
    if slot in ("sequence_gfa1", "sequence_gfa2"):
        return gen.gen_sequence(r, r.randint(1, 30))
    if slot in ("oriented_identifier_list_gfa1",):
        return ",".join(gen.choice(r, ["A", "B", "s1", "x.y"]) + gen.choice(r, "+-") for _ in range(r.randint(1, 5)))
    if slot in ("identifier_list_gfa2",):
        return " ".join(gen.choice(r, ["A", "B", "s1", "x.y", "e1"]) for _ in range(r.randint(1, 5)))
    if slot in ("oriented_identifier_list_gfa2",):
        return " ".join(gen.choice(r, ["A", "B", "s1", "x.y", "e1"]) + gen.choice(r, "+-") for _ in range(r.randint(1, 5)))
    return gen.choice(r, POOL.get(slot, ["a"]))


@st.composite
def st_long(draw):
    r = draw(st.randoms(use_true_random=False))
    slot = gen.choice(r, sorted(x for x in SLOTS if x != "custom_record_type"))
    v = _valid_value(r, slot)
    alpha = sorted(set(ALPHA[slot] + EXTRA))
    for _ in range(gen.choice(r, [0, 1, 1, 2, 3])):
        k = r.randrange(4)
        p_ = r.randint(0, len(v))
        if k == 0 and v:
            p_ = min(p_, len(v) - 1)
            v = v[:p_] + v[p_ + 1:]
        elif k == 1:
            v = v[:p_] + gen.choice(r, alpha) + v[p_:]
        elif k == 2 and v:
            p_ = min(p_, len(v) - 1)
            v = v[:p_] + gen.choice(r, alpha) + v[p_ + 1:]
        elif v:
            q_ = r.randint(0, len(v))
            a_, b_ = min(p_, q_), max(p_, q_)
            v = v[:a_] + v[b_:] if gen.chance(r, 0.5) else v[:b_] + v[a_:b_] + v[b_:]
    if "\t" in v:
        v = v.replace("\t", " ")
    return {"slot": slot, "s": v, "vlevel": r.randint(1, 3), "warm": gen.chance(r, 0.3)}


# ------------------------------------------------------------------ document level

def _load_verdict(lines, version, vlevel, dialect="standard", explicit=True):
    try:
        kw = {"vlevel": vlevel, "dialect": dialect}
        if explicit:
            kw["version"] = version
        g = gfapy.Gfa(list(lines), **kw)
        g.validate()
        for l in g.lines:
            l.validate()
        w = str(g)
        if "# INVALID" in w:
            return "refuse", "INVALID marker"
    except GfapyError as e:
        return "refuse", type(e).__name__
    except Exception as e:
        return "foreign", "%s: %s" % (type(e).__name__, str(e)[:200])
    return "accept", None


MUTATIONS = ["none", "drop_pos", "add_pos", "bad_tagname", "dup_tag", "predef_type", "ln_mismatch",
             "path_count", "beg_gt_end", "dollar", "undef_ref", "missing_link", "valid_retag"]


def mutate_doc(r, doc, kind):
    """Returns (lines(text), expected 'accept'|'refuse') or None if not applicable."""
    version = doc["version"]
    recs = [G.Rec.from_plain(l, version) for l in doc["lines"]]
    idx = list(range(len(recs)))
    r.shuffle(idx)

    def out():
        return [x.text() for x in recs]
    if kind == "none":
        return out(), "accept"
    if kind == "valid_retag":
        for i in idx:
            if recs[i].rt not in "#H":
                free = [n for n in gen.TAG_NAMES if recs[i].tag(n) is None]
                if free:
                    t = gen.choice(r, G.TAG_TYPES)
                    recs[i].tags.append((gen.choice(r, free), t, gen.gen_tag_value(r, t)))
                    return out(), "accept"
        return None
    if kind == "drop_pos":
        for i in idx:
            if recs[i].rt in G.POS[version] and recs[i].rt != "H" and len(recs[i].pos) >= 2 and not recs[i].tags:
                # (a record without tags: a tag could take the place of the missing field - 'S A 1 FC:i:0' is the
                #  GFA2 segment A of length 1 with the sequence 'FC:i:0')
                recs[i].pos.pop(r.randrange(len(recs[i].pos)))
                return out(), "refuse"
        return None
    if kind == "add_pos":
        for i in idx:
            if recs[i].rt in G.POS[version] and recs[i].rt != "H":
                recs[i].pos.insert(r.randint(1, len(recs[i].pos)), gen.choice(r, ["7", "+", "x y"]))
                return out(), "refuse"
        return None
    if kind == "bad_tagname":
        for i in idx:
            if recs[i].rt in G.POS[version]:
                lines = out()
                lines[i] = lines[i] + "\t" + gen.choice(r, ["x:i:1", "xyz:i:1", "1x:i:1", "x_:Z:a", "xx:i", "xx:Q:1", "xx;i;1"])
                return lines, "refuse"
        return None
    if kind == "dup_tag":
        for i in idx:
            if recs[i].rt in G.POS[version] and recs[i].rt != "H" and recs[i].tags:
                n, t, v = gen.choice(r, recs[i].tags)
                recs[i].tags.append((n, t, v))
                return out(), "refuse"
        return None
    if kind == "predef_type":
        for i in idx:
            pre = G.PREDEFINED[version].get(recs[i].rt, {})
            pre = {k: v for k, v in pre.items() if recs[i].tag(k) is None and k not in ("LN",)}
            if pre:
                name = gen.choice(r, sorted(pre))
                wrong = gen.choice(r, [t for t in "iZfA" if t != pre[name]])
                recs[i].tags.append((name, wrong, gen.gen_tag_value(r, wrong)))
                return out(), "refuse"
        return None
    if kind == "ln_mismatch" and version == "gfa1":
        for i in idx:
            if recs[i].rt == "S" and recs[i].pos[1] != "*":
                n = len(recs[i].pos[1])
                recs[i].tags = [t for t in recs[i].tags if t[0] != "LN"] + [("LN", "i", str(gen.choice(r, [x for x in (n - 1, n + 1, n + 5, 0, 2 * n) if x != n and x >= 0])))]
                return out(), "refuse"
        return None
    if kind == "path_count" and version == "gfa1":
        for i in idx:
            if recs[i].rt == "P":
                n = len(recs[i].pos[1].split(","))
                ovs = recs[i].pos[2].split(",")
                target = gen.choice(r, [n + 1, n + 2] + ([n - 2] if n - 2 >= 2 else []))
                base = ovs[0] if ovs[0] != "*" else "*"
                recs[i].pos[2] = ",".join((ovs + [base] * target)[:target])
                if target == 1 and recs[i].pos[2] == "*":
                    continue
                return out(), "refuse"
        return None
    if kind == "beg_gt_end" and version == "gfa2":
        for i in idx:
            if recs[i].rt == "F":
                # (an interval is a pair begin <= end, on the segment and on the external sequence alike)
                side = gen.choice(r, [2, 4])
                e = M.pos_val(recs[i].pos[side + 1])
                if e[0] >= 1:
                    recs[i].pos[side] = str(e[0])
                    recs[i].pos[side + 1] = str(e[0] - 1)
                    return out(), "refuse"
            if recs[i].rt == "E":
                side = gen.choice(r, [3, 5])
                b, e = M.pos_val(recs[i].pos[side]), M.pos_val(recs[i].pos[side + 1])
                if e[0] >= 1:
                    recs[i].pos[side] = str(e[0])
                    recs[i].pos[side + 1] = str(e[0] - 1)
                    return out(), "refuse"
        return None
    if kind == "dollar" and version == "gfa2":
        slen = {x.pos[0]: (int(x.pos[1]), x.pos[2]) for x in recs if x.rt == "S"}
        for i in idx:
            if recs[i].rt == "E":
                for side, sidf in ((3, 1), (5, 2)):
                    sn = recs[i].pos[sidf][:-1]
                    n, seq = slen.get(sn, (None, "*"))
                    e = M.pos_val(recs[i].pos[side + 1])
                    if seq != "*" and n is not None and not e[1] and e[0] < n:
                        recs[i].pos[side + 1] = "%d$" % e[0]
                        return out(), "refuse"
        return None
    if kind == "undef_ref":
        for i in idx:
            rt = recs[i].rt
            if version == "gfa1" and rt in "LC":
                recs[i].pos[gen.choice(r, [0, 2])] = "nowhere"
                return out(), "refuse"
            if version == "gfa1" and rt == "P":
                items = recs[i].pos[1].split(",")
                items[r.randrange(len(items))] = "nowhere+"
                recs[i].pos[1] = ",".join(items)
                return out(), "refuse"
            if version == "gfa2" and rt in "EG":
                k = gen.choice(r, [1, 2])
                recs[i].pos[k] = "nowhere" + recs[i].pos[k][-1]
                return out(), "refuse"
            if version == "gfa2" and rt == "F":
                recs[i].pos[0] = "nowhere"
                return out(), "refuse"
            if version == "gfa2" and rt in "OU":
                sep = " "
                items = recs[i].pos[1].split(sep)
                items[r.randrange(len(items))] = "nowhere" + ("+" if rt == "O" else "")
                recs[i].pos[1] = sep.join(items)
                return out(), "refuse"
        return None
    if kind == "missing_link" and version == "gfa1":
        m = M.ModelDoc(version, recs)
        idxl = m.link_index()
        for i in idx:
            if recs[i].rt == "P":
                steps = M.path_steps(recs[i])
                if steps:
                    l = m.find_link(gen.choice(r, steps), idxl)
                    if l is not None:
                        # remove that link and every link equivalent to it
                        recs2 = [x for x in recs if x is not l]
                        m2 = M.ModelDoc(version, recs2)
                        if m2.missing_links():
                            # other paths over the same link are refused as well: fine
                            return [x.text() for x in recs2], "refuse"
        return None
    return None


def prop_doc(case):
    lines, want, vlevel = case["lines"], case["expect"], case["vlevel"]
    got, info = _load_verdict(lines, case["version"], vlevel, case.get("dialect", "standard"), case.get("explicit", True))
    text = "\n".join(lines)
    if got == "foreign":
        raise Violation("doc-foreign", "mutation %s: %s\n%s" % (case["kind"], info, text), "%s/%s" % (case["kind"], info.split(":")[0]))
    if want == "accept" and got != "accept":
        raise Violation("doc-valid-refused", "valid document (%s) refused at vlevel %d: %s\n%s" % (case["kind"], vlevel, info, text), case["kind"])
    if want == "refuse" and got == "accept":
        raise Violation("doc-invalid-accepted", "document with mutation %s accepted at vlevel %d:\n%s" % (case["kind"], vlevel, text), case["kind"])
    # the lines one by one (gfapy.Line + validate()): every line of a valid document is accepted alone, and a rule
    # that concerns a single line (field count, tag names and types, LN, overlap count, begin <= end) refuses the line alone
    if case.get("dialect", "standard") == "standard":
        verdicts = []
        for l in lines:
            try:
                x = gfapy.Line(l, version=case["version"], vlevel=vlevel)
                x.validate()
                verdicts.append("accept" if "# INVALID" not in str(x) else "refuse")
            except GfapyError:
                verdicts.append("refuse")
            except Exception as e:
                raise Violation("doc-foreign", "line %r alone: %s: %s" % (l, type(e).__name__, str(e)[:200]), "%s/line/%s" % (case["kind"], type(e).__name__))
        if want == "accept" and "refuse" in verdicts:
            raise Violation("doc-valid-refused", "line %r of a valid document is refused alone at vlevel %d" % (lines[verdicts.index("refuse")], vlevel), "line/" + case["kind"])
        if want == "refuse" and case["kind"] in SINGLE_LINE_RULES and "refuse" not in verdicts:
            raise Violation("doc-invalid-accepted", "mutation %s concerns one line, but every line is accepted alone (gfapy.Line + validate()) at vlevel %d:\n%s" % (
                case["kind"], vlevel, text), "line/" + case["kind"])
    return {"nt": case["kind"] not in ("none",), "kind": case["kind"], "version": case["version"]}


SINGLE_LINE_RULES = {"bad_tagname", "dup_tag", "predef_type", "ln_mismatch", "path_count", "beg_gt_end"}


RGFA_BASE = ["S\ts1\tACGT\tSN:Z:chr1\tSO:i:0\tSR:i:0", "S\ts2\tAC\tSN:Z:chr1\tSO:i:4\tSR:i:0",
             "S\ts3\tGGA\tSN:Z:alt\tSO:i:0\tSR:i:1", "L\ts1\t+\ts2\t+\t0M\tSR:i:0\tL1:i:4\tL2:i:2",
             "L\ts2\t-\ts3\t+\t0M"]
RGFA_MUT = {
    "rgfa_none": (lambda L: L, "accept"),
    "rgfa_path": (lambda L: L + ["P\tp\ts1+,s2+\t0M"], "refuse"),
    "rgfa_containment": (lambda L: L + ["C\ts1\t+\ts2\t+\t0\t2M"], "refuse"),
    "rgfa_header": (lambda L: ["H\tVN:Z:1.0"] + L, "refuse"),
    "rgfa_missing_SN": (lambda L: [L[0].replace("\tSN:Z:chr1", "")] + L[1:], "refuse"),
    "rgfa_missing_SO": (lambda L: [L[0].replace("\tSO:i:0", "")] + L[1:], "refuse"),
    "rgfa_missing_SR": (lambda L: L[:2] + [L[2].replace("\tSR:i:1", "")] + L[3:], "refuse"),
    "rgfa_SN_type": (lambda L: [L[0].replace("SN:Z:chr1", "SN:i:1")] + L[1:], "refuse"),
    "rgfa_SO_type": (lambda L: [L[0].replace("SO:i:0", "SO:Z:0")] + L[1:], "refuse"),
    "rgfa_SR_type": (lambda L: [L[0].replace("SR:i:0", "SR:f:0")] + L[1:], "refuse"),
    "rgfa_link_SR_type": (lambda L: L[:3] + [L[3].replace("SR:i:0", "SR:Z:0")] + L[4:], "refuse"),
    "rgfa_overlap": (lambda L: L[:4] + [L[4].replace("0M", "1M")], "refuse"),
    "rgfa_overlap_star": (lambda L: L[:4] + [L[4].replace("0M", "*")], "refuse"),
    "rgfa_gfa2": (lambda L: ["S\ts1\t4\tACGT\tSN:Z:chr1\tSO:i:0\tSR:i:0"], "refuse"),
    "rgfa_extra_tag": (lambda L: [L[0] + "\txx:Z:more"] + L[1:], "accept"),
}


@st.composite
def st_doc_case(draw):
    r = draw(st.randoms(use_true_random=False))
    if gen.chance(r, 0.12):
        kind = gen.choice(r, sorted(RGFA_MUT))
        f, want = RGFA_MUT[kind]
        lines = f(list(RGFA_BASE))
        order = list(range(len(lines)))
        if gen.chance(r, 0.5):
            r.shuffle(order)
        return {"version": "gfa1", "lines": [lines[i] for i in order], "expect": want, "kind": kind,
                "vlevel": gen.choice(r, [1, 2, 3]), "dialect": "rgfa", "explicit": kind != "rgfa_gfa2" and gen.chance(r, 0.5)}
    v = gen.choice(r, ["gfa1", "gfa2"])
    o = {"both_forms": False, "comments": False, "nseg": (2, 4)}
    doc = gen.build_gfa1(r, o) if v == "gfa1" else gen.build_gfa2(r, o)
    kinds = list(MUTATIONS)
    r.shuffle(kinds)
    for kind in kinds:
        res = mutate_doc(r, {"version": v, "lines": doc["lines"]}, kind)
        if res is not None:
            lines, want = res
            return {"version": v, "lines": lines, "expect": want, "kind": kind, "vlevel": gen.choice(r, [1, 2, 3]),
                    "explicit": True}
    return {"version": v, "lines": gen.doc_lines(doc), "expect": "accept", "kind": "none", "vlevel": 1, "explicit": True}


def _parts_extra(tier):
    return [Part("long", prop_field, strategy=st_long(), n=2500 if tier == "quick" else 20000, quick_shards=2,
                 note="longer values from the value generators with 0-3 random edits (insert, delete, replace, cut, repeat)")]


def parts(tier):
    q = tier == "quick"
    return [Part("fields", prop_field, enum=enum_fields(tier), exhaustive=True, quick_shards=12,
                 note="all strings up to the per-slot length bound over the per-slot alphabet"),
            Part("pool", prop_field, enum=enum_pool, exhaustive=True, quick_shards=4,
                 note="all single-character edits of the pool of valid values"),
            Part("docs", prop_doc, strategy=st_doc_case(), n=700 if q else 3000, quick_shards=2)] + _parts_extra(tier)
