"""C06 GFA1 <-> GFA2 conversion preserves the graph and emits valid output."""
from collections import Counter

from hypothesis import strategies as st

from .. import gen, grammar as G, model as M
from ..env import gfapy, GfapyError
from ..runner import Part, Violation

ID = "C06"
ATHERIS = ['gfa1', 'gfa2']  # parts also driven by libFuzzer in the thorough tier (vf/runner.py: all_parts)
RULE = ("part 'gfa1': generated GFA1 graphs (segments with LN and/or sequence, links with asymmetric CIGARs over "
        "M/I/D/P in all four orientation pairs incl. self-links, containments at every offset incl. ending at the "
        "container's end, linear / circular / single-segment paths, ID tags present or absent, other tags) "
        "converted with to_gfa2() and to_gfa2_s(); part 'gfa2': GFA2 graphs built from such graphs with E lines "
        "in both role arrangements (sid1 = from and sid1 = to), named/unnamed, O paths, plus records without a "
        "GFA1 counterpart (G, F, U, custom, internal E) converted with to_gfa1()/to_gfa1_s() and per line. "
        "Oracle: (1) output parses in the target version at vlevel 3 and validates; (2) every L/C and its E "
        "counterpart agree with the model's interval arithmetic ('$' exactly at the segment length) and "
        "alignment direction; paths visit the same oriented segments through the same edges; tags carried; "
        "(3) there-and-back equals the source modulo ID/LN/VN; (4) no-counterpart records are absent or the call "
        "raises a gfapy.Error. Half of the documents of both parts have their lines shuffled (paths before "
        "links before segments: forward references). In the gfa2 part 60% of the cases also convert once, replace a "
        "named dovetail edge by one with another alignment and require the live conversion to equal the conversion of a "
        "fresh parse of the current text; header tags other than VN are carried both ways. Part 'gfa1-only-ops': such GFA1 graphs with = X N S H in "
        "the overlap of one or all edges at vlevel 0..3: whole-graph and per-line conversion raise a "
        "gfapy.Error or write valid GFA2 without those operations. Part 'cli': bin/gfapy-convert as a subprocess on files "
        "holding such GFA1 / GFA2 graphs, its output judged like to_gfa2_s() / to_gfa1_s(). non-trivial = >= 1 edge with an I or D in "
        "its CIGAR and >= 2 distinct orientation pairs (gfa1-only-ops: >= 1 affected edge); distinct by hash")
ASSUMPTIONS = [
    "GFA1 sources: every segment has a length, every overlap is specified with GFA2-legal operations (M I D P)",
    "a link's overlap never covers a whole segment (in GFA2 such an interval is, by definition, a containment) and a containment's CIGAR consumes exactly the contained segment",
    "a link and its complement are the same edge: a GFA2->GFA1 result is accepted in either form",
    "identifiers assigned during conversion (edge ids for links without ID) are not compared, only required to be consistent",
]
INV = {"+": "-", "-": "+"}


# ---------------------------------------------------------------- model arithmetic

def fmt(p, n):
    return "%d$" % p if p == n else str(p)


def m_link_to_edge(p, slen):
    f, fo, t, to, ov = p[:5]
    ref, qry = gen.cigar_lengths(ov)
    lf, lt = slen[f], slen[t]
    b1, e1 = (lf - ref, lf) if fo == "+" else (0, ref)
    b2, e2 = (0, qry) if to == "+" else (lt - qry, lt)
    return [f + fo, t + to, fmt(b1, lf), fmt(e1, lf), fmt(b2, lt), fmt(e2, lt), ov]


def m_cont_to_edge(p, slen):
    f, fo, t, to, pos, ov = p[:6]
    ref, _qry = gen.cigar_lengths(ov)
    lf, lt = slen[f], slen[t]
    pos = int(pos)
    return [f + fo, t + to, fmt(pos, lf), fmt(pos + ref, lf), "0", fmt(lt, lt), ov]


def m_edge_to_gfa1(pos):
    """E positional fields -> ('L', [f,fo,t,to,ov]) | ('C', [f,fo,t,to,pos,ov]) | None."""
    rec = G.Rec("E", pos, [], "gfa2")
    kind, k1, k2 = M.classify_edge(rec)
    (n1, o1), (n2, o2) = M.split_oriented(pos[1]), M.split_oriented(pos[2])
    aln = pos[7]
    if kind == "I":
        return None
    if kind == "C":
        sid1_container = (k1 == "edges_to_contained") or M.both_whole(rec)
        if sid1_container:
            return ("C", [n1, o1, n2, o2, str(M.pos_val(pos[3])[0]), aln])
        return ("C", [n2, o2, n1, o1, str(M.pos_val(pos[5])[0]), M.complement_cigar(aln)])
    st1 = M.substring_type(pos[3], pos[4])
    role1 = st1 if o1 == "+" else {"pfx": "sfx", "sfx": "pfx"}[st1]
    if role1 == "sfx":
        return ("L", [n1, o1, n2, o2, aln])
    return ("L", [n2, o2, n1, o1, M.complement_cigar(aln)])


def canon_steps(segs, steps):
    """Canonical step overlaps of a path; for a hairpin step whose complement joins the
    same oriented segments the overlap is defined up to complement."""
    out = []
    for i, ov in enumerate(steps):
        (f, fo), (t, to) = M.split_oriented(segs[i]), M.split_oriented(segs[i + 1])
        c = G.canon_alignment(ov)
        if (t, INV[to]) == (f, fo) and ov != "*":
            c = min(c, G.canon_alignment(M.complement_cigar(ov)), key=repr)
        out.append(c)
    return tuple(out)


def strip_tags(tags, drop):
    return tuple(sorted(((n, t, G.canon_tag_value(t, v)) for n, t, v in tags if n not in drop), key=repr))


def path_walk1(rec):
    segs = rec.pos[1].split(",")
    ovs = rec.pos[2].split(",")
    if len(segs) > 1 and len(ovs) == len(segs):
        segs = segs + [segs[0]]
    steps = []
    for i in range(len(segs) - 1):
        ov = "*" if ovs == ["*"] else ovs[i]
        steps.append(ov)
    return segs, steps


# ---------------------------------------------------------------- generators

def cigar_with(r, ref=None, qry=None, maxlen=None):
    """CIGAR over MIDP with given query length (for containments) or bounded lengths."""
    for _ in range(50):
        ops = []
        if qry is not None:
            left = qry
            while left > 0:
                n = r.randint(1, left)
                ops.append((n, gen.choice(r, "MMI")))
                left -= n
                if gen.chance(r, 0.4):
                    ops.append((r.randint(1, 3), gen.choice(r, "DP")))
        else:
            for _i in range(r.randint(1, 4)):
                ops.append((r.randint(1, 4), gen.choice(r, "MMIDP")))
        c = "".join("%d%s" % o for o in ops)
        rf, qr = gen.cigar_lengths(c)
        if maxlen is None or (rf < maxlen[0] and qr < maxlen[1]):
            if ref is None or rf <= ref:
                return c
    return None


def build_conv_gfa1(r):
    nseg = r.randint(2, 4)
    names = list(gen.SEG_NAMES[:8])
    r.shuffle(names)
    segs = names[:nseg]
    lines = []
    slen = {}
    if gen.chance(r, 0.5):
        htags = [["VN", "Z", "1.0"]] if gen.chance(r, 0.7) else []
        for n_ in ("hx", "hz"):
            if gen.chance(r, 0.4):
                t_ = gen.choice(r, "iZf")
                htags.append([n_, t_, gen.gen_tag_value(r, t_, True)])
        if htags:
            lines.append(["H", [], htags])
    for s in segs:
        n = r.randint(4, 14)
        slen[s] = n
        tags = gen.gen_tags(r, "gfa1", "S", True, maxn=2)
        if gen.chance(r, 0.5):
            seq = gen.gen_sequence(r, n)
            if gen.chance(r, 0.5):
                tags.append(["LN", "i", str(n)])
        else:
            seq = "*"
            tags.append(["LN", "i", str(n)])
        lines.append(["S", [s, seq], tags])
    other = ["e1", "e2", "e3", "e4", "e5", "p1", "p2", "c1", "c2"]
    if gen.chance(r, 0.4):
        # identifiers that look like the numbers a conversion hands out to unnamed links
        other += [x for x in ["1", "2", "3", "4"] if x not in segs]
        r.shuffle(other)
    links = {}
    link_recs = []

    def add_link(f, fo, t, to, ov):
        k = M.link_form_key((f, fo, t, to, ov))
        if k in links:
            return links[k]
        if any(M.ends_key(*x[1][:4]) == M.ends_key(f, fo, t, to) for x in link_recs):
            return None  # one link per end pair keeps path resolution unambiguous
        tg = gen.gen_tags(r, "gfa1", "L", True, maxn=2)
        if gen.chance(r, 0.4) and other:
            tg.append(["ID", "Z", other.pop()])
        rec = ["L", [f, fo, t, to, ov], tg]
        links[k] = rec
        link_recs.append(rec)
        return rec

    for _ in range(r.randint(1, 2 * nseg)):
        f, t = gen.choice(r, segs), gen.choice(r, segs)
        ov = cigar_with(r, maxlen=(slen[f], slen[t]))
        if ov:
            add_link(f, gen.choice(r, "+-"), t, gen.choice(r, "+-"), ov)
    conts = []
    for _ in range(r.randint(0, 2)):
        f, t = gen.choice(r, segs), gen.choice(r, segs)
        if f == t:
            continue
        ov = cigar_with(r, ref=slen[f], qry=slen[t])
        if ov is None:
            continue
        ref, _q = gen.cigar_lengths(ov)
        pos = gen.choice(r, [0, slen[f] - ref, r.randint(0, slen[f] - ref)])
        tg = gen.gen_tags(r, "gfa1", "C", True, maxn=1)
        if gen.chance(r, 0.3) and other:
            tg.append(["ID", "Z", other.pop()])
        conts.append(["C", [f, gen.choice(r, "+-"), t, gen.choice(r, "+-"), str(pos), ov], tg])
    paths = []
    for _ in range(r.randint(0, 2)):
        if not other:
            break
        pn = other.pop()
        if not link_recs or gen.chance(r, 0.2):
            paths.append(["P", [pn, gen.choice(r, segs) + gen.choice(r, "+-"), "*"], []])
            continue
        # walk along existing links, in either direction
        walk = []
        ovs = []
        rec = gen.choice(r, link_recs)
        f, fo, t, to, ov = rec[1]
        if gen.chance(r, 0.5):
            f, fo, t, to, ov = t, INV[to], f, INV[fo], M.complement_cigar(ov)
        walk = [(f, fo), (t, to)]
        ovs = [ov]
        for _k in range(r.randint(0, 3)):
            cur = walk[-1]
            nxt = []
            for x in link_recs:
                a = x[1]
                if (a[0], a[1]) == cur:
                    nxt.append(((a[2], a[3]), a[4]))
                if (a[2], INV[a[3]]) == cur:
                    nxt.append(((a[0], INV[a[1]]), M.complement_cigar(a[4])))
            if not nxt:
                break
            n_, ov_ = gen.choice(r, nxt)
            walk.append(n_)
            ovs.append(ov_)
        if len(walk) > 2 and walk[0] == walk[-1] and gen.chance(r, 0.7):
            walk = walk[:-1]  # circular representation: n segments, n overlaps
        paths.append(["P", [pn, ",".join(s + o for s, o in walk), ",".join(ovs)], gen.gen_tags(r, "gfa1", "P", True, maxn=1)])
    lines += link_recs + conts + paths
    for _ in range(r.randint(0, 2) if gen.chance(r, 0.3) else 0):
        lines.insert(r.randint(0, len(lines)), ["#", [gen.choice(r, [" a comment", "no blank", "  two blanks", " with\ttab"])], []])
    return {"version": "gfa1", "lines": lines, "slen": slen}


# ---------------------------------------------------------------- oracles

def parse_out(text, version, what):
    try:
        g = gfapy.Gfa(text, version=version, vlevel=3)
        g.validate()
        for l in g.lines:
            l.validate()
        if "# INVALID" in str(g) or "GFAPY_virtual" in str(g):
            raise Violation("invalid-output", "%s carries markers:\n%s" % (what, text))
    except Violation:
        raise
    except Exception as e:
        raise Violation("invalid-output", "%s is not valid %s at vlevel 3: %s: %s\n%s" % (what, version, type(e).__name__, str(e)[:300], text), type(e).__name__)
    return [G.split_line(l, version) for l in text.split("\n") if l]


def check_gfa1_to_gfa2(doc):
    lines = gen.doc_lines(doc)
    slen = doc["slen"]
    src = M.ModelDoc.from_doc(doc)
    outs = []
    for how in ("to_gfa2_s", "to_gfa2"):
        try:
            g = gfapy.Gfa(lines, version="gfa1", vlevel=1)
            text = g.to_gfa2_s() if how == "to_gfa2_s" else str(g.to_gfa2())
        except GfapyError as e:
            raise Violation("conversion-refused", "%s raised %s: %s\n%s" % (how, type(e).__name__, str(e)[:300], "\n".join(lines)), type(e).__name__)
        except Exception as e:
            raise Violation("conversion-foreign", "%s raised %s: %s\n%s" % (how, type(e).__name__, str(e)[:300], "\n".join(lines)), type(e).__name__)
        recs = parse_out(text, "gfa2", how + " output")
        compare_gfa2(src, slen, recs, text, how)
        outs.append(text)
        # the GFA2 view of a link or containment (beg1, end1, beg2, end2 of the line itself) is what the conversion writes
        for l in g.edges:
            try:
                acc = [str(l.beg1), str(l.end1), str(l.beg2), str(l.end2)]
                wrote = l.to_gfa2_s().split("\t")[4:8]
            except GfapyError:
                continue
            except Exception as e:
                raise Violation("conversion-foreign", "positions of %r raised %s: %s" % (str(l), type(e).__name__, str(e)[:200]), type(e).__name__)
            if acc != wrote:
                raise Violation("accessors", "%r: beg1, end1, beg2, end2 = %s, converted line has %s" % (str(l), acc, wrote), l.record_type)
    return outs[0]


def compare_gfa2(src, slen, recs, text, how):
    ctx = "\n-- source --\n%s\n-- %s --\n%s" % (src.text(), how, text)
    # header tags other than the version are carried
    want_h = Counter(t for r in src.recs if r.rt == "H" for t in strip_tags(r.tags, {"VN"}))
    got_h = Counter(t for r in recs if r.rt == "H" for t in strip_tags(r.tags, {"VN"}))
    if want_h != got_h:
        raise Violation("header-tags", "header tags differ: %s%s" % (G.counter_diff(want_h, got_h), ctx), how)
    # segments
    want_s = Counter()
    for r in src.recs:
        if r.rt == "S":
            want_s[(r.pos[0], slen[r.pos[0]], r.pos[1], strip_tags(r.tags, {"LN"}))] += 1
    got_s = Counter((r.pos[0], int(r.pos[1]), r.pos[2], strip_tags(r.tags, set())) for r in recs if r.rt == "S")
    if want_s != got_s:
        raise Violation("segments", "segments differ: %s%s" % (G.counter_diff(want_s, got_s), ctx))
    # edges
    want_e = Counter()
    src_edges = []
    for r in src.recs:
        if r.rt in ("L", "C"):
            e = m_link_to_edge(r.pos, slen) if r.rt == "L" else m_cont_to_edge(r.pos, slen)
            idt = r.tag("ID")
            key = (idt[1] if idt else None, tuple(e[:6]), G.canon_alignment(e[6]), strip_tags(r.tags, {"ID"}))
            want_e[key[1:]] += 1
            src_edges.append((r, key))
    got_e = Counter()
    got_by_key = {}
    for r in recs:
        if r.rt == "E":
            key = (tuple(r.pos[1:7]), G.canon_alignment(r.pos[7]), strip_tags(r.tags, set()))
            got_e[key] += 1
            got_by_key.setdefault(key, []).append(r.pos[0])
    if want_e != got_e:
        raise Violation("edges", "E lines differ from the model: %s%s" % (G.counter_diff(want_e, got_e), ctx),
                        "L" if any(r.rt == "L" for r, _k in src_edges) else "C")
    for r, key in src_edges:
        if key[0] is not None and key[0] not in got_by_key[key[1:]]:
            raise Violation("edge-id", "edge of %r does not keep its ID %s%s" % (r.text(), key[0], ctx))
    eids = [x.pos[0] for x in recs if x.rt == "E" and x.pos[0] != "*"]
    if len(eids) != len(set(eids)):
        raise Violation("edge-id", "duplicate edge identifiers%s" % ctx)
    # paths
    ebyid = {x.pos[0]: x for x in recs if x.rt == "E"}
    got_p = {x.pos[0]: x for x in recs if x.rt == "O"}
    for r in src.recs:
        if r.rt != "P":
            continue
        if r.pos[0] not in got_p:
            raise Violation("path-missing", "path %s missing%s" % (r.pos[0], ctx))
        items = got_p[r.pos[0]].pos[1].split(" ")
        segs, steps = path_walk1(r)
        if len(items) != len(segs) + len(steps):
            raise Violation("path-items", "path %s: items %s do not alternate over %s%s" % (r.pos[0], items, segs, ctx))
        for i, sname in enumerate(segs):
            if items[2 * i] != sname:
                raise Violation("path-items", "path %s: item %d is %s, expected segment %s%s" % (r.pos[0], 2 * i, items[2 * i], sname, ctx))
        for i, ov in enumerate(steps):
            it = items[2 * i + 1]
            eid, eo = it[:-1], it[-1]
            if eid not in ebyid:
                raise Violation("path-items", "path %s: item %s is not an edge%s" % (r.pos[0], it, ctx))
            (f, fo), (t, to) = M.split_oriented(segs[i]), M.split_oriented(segs[i + 1])
            fwd = m_link_to_edge((f, fo, t, to, ov), slen)
            rev = m_link_to_edge((t, INV[to], f, INV[fo], M.complement_cigar(ov)), slen)
            e = ebyid[eid]
            ek = (e.pos[1:7], G.canon_alignment(e.pos[7]))
            if ek == (fwd[:6], G.canon_alignment(fwd[6])) and eo == "+":
                continue
            if ek == (rev[:6], G.canon_alignment(rev[6])) and eo == "-":
                continue
            if fwd[:2] == rev[:2] and ek[0] in (fwd[:6], rev[:6]):
                continue  # self-complementary hairpin: either flag
            raise Violation("path-edge", "path %s step %d (%s -> %s, %s): item %s does not denote that edge in that direction%s" % (
                r.pos[0], i, segs[i], segs[i + 1], ov, it, ctx))
        if strip_tags(got_p[r.pos[0]].tags, set()) != strip_tags(r.tags, set()):
            raise Violation("path-tags", "path %s tags differ%s" % (r.pos[0], ctx))
    want_c = Counter(x.pos[0] for x in src.recs if x.rt == "#")
    got_c = Counter(x.pos[0] for x in recs if x.rt == "#")
    if want_c != got_c:
        raise Violation("comments", "comment lines %s, expected %s%s" % (sorted(got_c.elements()), sorted(want_c.elements()), ctx), how)
    extra = [x for x in recs if x.rt not in ("S", "E", "O", "H", "#")]
    if extra or len([x for x in recs if x.rt == "O"]) != len([x for x in src.recs if x.rt == "P"]):
        raise Violation("invented", "records not derivable from the source: %s%s" % ([x.text() for x in extra], ctx))


def canon_gfa1_for_roundtrip(recs):
    out = Counter()
    for r in recs:
        if r.rt == "S":
            out[("S", r.pos[0], r.pos[1], strip_tags(r.tags, {"LN"}))] += 1
        elif r.rt == "L":
            c = G.canon_rec(G.Rec("L", r.pos, [], "gfa1"))
            out[("L", G.link_key(c), strip_tags(r.tags, {"ID"}))] += 1
        elif r.rt == "C":
            c = G.canon_rec(G.Rec("C", r.pos, [], "gfa1"))
            out[("C", c[1], strip_tags(r.tags, {"ID"}))] += 1
        elif r.rt == "P":
            segs, steps = path_walk1(r)
            out[("P", r.pos[0], tuple(segs), canon_steps(segs, steps), strip_tags(r.tags, set()))] += 1
        elif r.rt == "#":
            out[("#", r.pos[0])] += 1
        elif r.rt == "H":
            for t in strip_tags(r.tags, {"VN"}):
                out[("H", t)] += 1
    return out


def prop_gfa1(case):
    doc = case["doc"]
    text2 = check_gfa1_to_gfa2(doc)
    # there and back
    try:
        g2 = gfapy.Gfa(text2, version="gfa2", vlevel=1)
        back = g2.to_gfa1_s()
        back2 = str(gfapy.Gfa(text2, version="gfa2", vlevel=1).to_gfa1())
    except Exception as e:
        raise Violation("back-conversion", "GFA2 -> GFA1 of converted graph raised %s: %s\n%s" % (type(e).__name__, str(e)[:300], text2), type(e).__name__)
    for how, b in (("to_gfa1_s", back), ("to_gfa1", back2)):
        recs = parse_out(b, "gfa1", "round-trip " + how + " output")
        src = [G.Rec.from_plain(l, "gfa1") for l in doc["lines"]]
        a, c = canon_gfa1_for_roundtrip(src), canon_gfa1_for_roundtrip(recs)
        if a != c:
            raise Violation("round-trip", "GFA1 -> GFA2 -> GFA1 (%s) differs: %s\n-- source --\n%s\n-- gfa2 --\n%s\n-- back --\n%s" % (
                how, G.counter_diff(a, c), gen.doc_text(doc), text2, b))
    ops = set()
    ors = set()
    for l in doc["lines"]:
        if l[0] in "LC":
            ops |= set(op for _n, op in G.canon_cigar(l[1][-1]))
            ors.add((l[1][1], l[1][3]))
    return {"nt": bool(ops & set("ID")) and len(ors) >= 2, "paths": any(l[0] == "P" for l in doc["lines"])}


def to_gfa2_doc(r, doc):
    """A GFA2 document equivalent to the GFA1 doc (by the model), E lines in either role
    arrangement, plus records without a GFA1 counterpart."""
    slen = doc["slen"]
    lines = []
    n = 0
    expect = []  # expected GFA1 records (canonical)
    eid_of = {}
    for l in doc["lines"]:
        rec = G.Rec.from_plain(l, "gfa1")
        if rec.rt == "H":
            lines.append(["H", [], [["VN", "Z", "2.0"]] + [list(t) for t in rec.tags if t[0] != "VN"]])
            for t in strip_tags(rec.tags, {"VN"}):
                expect.append(("H", t))
        elif rec.rt == "S":
            lines.append(["S", [rec.pos[0], str(slen[rec.pos[0]]), rec.pos[1]], [list(t) for t in rec.tags if t[0] != "LN"]])
            expect.append(("S", rec.pos[0], rec.pos[1], strip_tags(rec.tags, {"LN"})))
        elif rec.rt in ("L", "C"):
            e = m_link_to_edge(rec.pos, slen) if rec.rt == "L" else m_cont_to_edge(rec.pos, slen)
            idt = rec.tag("ID")
            n += 1
            eid = idt[1] if idt else ("*" if gen.chance(r, 0.4) and not doc.get("force_edges_only") else "x%d" % n)
            bw = M.both_whole(G.Rec("E", ["*"] + e, [], "gfa2"))
            if gen.chance(r, 0.5) and not bw:
                # the other role arrangement: sides swapped, alignment complemented
                # (not when both intervals are whole: then "sid1 is the container" is a convention)
                e = [e[1], e[0], e[4], e[5], e[2], e[3], M.complement_cigar(e[6])]
            tags = [list(t) for t in rec.tags if t[0] != "ID"]
            lines.append(["E", [eid] + e, tags])
            if rec.rt == "L":
                eid_of[M.link_form_key(rec.pos)] = (eid, rec.pos)
                c = G.canon_rec(G.Rec("L", rec.pos, [], "gfa1"))
                expect.append(("L", G.link_key(c), strip_tags(rec.tags, {"ID"})))
            else:
                c = G.canon_rec(G.Rec("C", rec.pos, [], "gfa1"))
                expect.append(("C", c[1], strip_tags(rec.tags, {"ID"})))
    extras = []
    segs = [l[1][0] for l in doc["lines"] if l[0] == "S"]
    if gen.chance(r, 0.5):
        extras.append(["G", ["*", segs[0] + "+", segs[-1] + "-", "10", "*"], []])
    if gen.chance(r, 0.5):
        extras.append(["F", [segs[0], "read1+", "0", fmt(2, slen[segs[0]]), "0", "2", "*"], []])
    if gen.chance(r, 0.5):
        extras.append(["U", ["uu", " ".join(segs[:2])], []])
    if gen.chance(r, 0.5):
        extras.append(["X", ["custom"], [["xx", "i", "1"]]])
    conts = [l for l in lines if l[0] == "E" and l[1][0] != "*" and M.classify_edge(G.Rec("E", l[1], [], "gfa2"))[0] == "C"]
    if conts and gen.chance(r, 0.5):
        # an ordered group over a containment: GFA1 paths go over links, this one has no counterpart
        e_ = gen.choice(r, conts)
        extras.append(["O", ["pcont", "%s %s+ %s" % (e_[1][1], e_[1][0], e_[1][2])], []])
    internal = None
    if gen.chance(r, 0.3):
        a, b = segs[0], segs[-1]
        internal = ["E", ["*", a + "+", b + "+", "1", "2", "1", "2", "1M"], []]
    # paths: only over named edges
    ambiguous = []
    for l in doc["lines"]:
        if l[0] != "P":
            continue
        rec = G.Rec.from_plain(l, "gfa1")
        segl, steps = path_walk1(rec)
        items = []
        ok = True
        for i, s in enumerate(segl):
            items.append(s)
            if i < len(steps):
                (f, fo), (t, to) = M.split_oriented(segl[i]), M.split_oriented(segl[i + 1])
                k = M.link_form_key((f, fo, t, to, steps[i]))
                if k not in eid_of or eid_of[k][0] == "*":
                    ok = False
                    break
                eid, p = eid_of[k]
                fwd = tuple(p[:4]) == (f, fo, t, to)
                if tuple(p[:4]) == (t, INV[to], f, INV[fo]) and fwd and gen.chance(r, 0.5):
                    fwd = False
                items.append(eid + ("+" if fwd else "-"))
        if not ok:
            continue
        pairs = Counter(frozenset([x[1][1][:-1], x[1][2][:-1]]) for x in lines if x[0] == "E")
        unamb = all(pairs[frozenset([M.split_oriented(segl[i])[0], M.split_oriented(segl[i + 1])[0]])] == 1
                    for i in range(len(steps)))
        if gen.chance(r, 0.3) and len(items) >= 3 and unamb:
            # elide the edges (gfapy supplies them when exactly one fits; gfapy's rule is
            # lenient about directions, so only when a single edge joins the two segments)
            items = [x for i, x in enumerate(items) if i % 2 == 0]
        elif (gen.chance(r, 0.25) or doc.get("force_edges_only")) and len(steps) >= 2:
            # the path given by its edges only (every segment is supplied).  When two edges join the same two
            # segments the list may be read in more than one way: then only a valid result (or a refusal) is demanded
            items = [x for i, x in enumerate(items) if i % 2 == 1]
            if not unamb or any(x.endswith("-") for x in items):
                ambiguous.append(rec.pos[0])
        if len(items) >= 5 and len(items) == 2 * len(steps) + 1 and gen.chance(r, 0.7) and unamb:
            # a stretch of the walk becomes a nested O group, referenced forwards or reversed; the nested group may
            # end with an edge (its last segment implied), the list then goes on with that segment
            nseg = (len(items) + 1) // 2
            i = r.randrange(nseg - 1)
            j = r.randint(i + 1, nseg - 1)
            sub = items[2 * i:2 * j + 1]
            flip = lambda x: x[:-1] + INV[x[-1]]
            sname = "n%s" % rec.pos[0]
            if gen.chance(r, 0.4):
                sub_items, ref = list(sub), sname + "+"
                if gen.chance(r, 0.5):
                    sub_items = sub_items[:-1]  # (ends with an edge)
            else:
                sub_items, ref = [flip(x) for x in reversed(sub)], sname + "-"
                if gen.chance(r, 0.7):
                    sub_items = sub_items[1:]  # (begins with an edge: reversed, it ends with one)
            tail = items[2 * j:] if len(sub_items) < len(sub) else items[2 * j + 1:]
            if sname not in [x[1][0] for x in lines if x[1]] and sname not in slen:
                lines.append(["O", [sname, " ".join(sub_items)], []])
                if ref.endswith("+"):
                    ssegs, ssteps = list(segl[i:j + 1]), list(steps[i:j])
                else:
                    ssegs = [flip(x) for x in reversed(segl[i:j + 1])]
                    ssteps = [M.complement_cigar(ov) for ov in reversed(steps[i:j])]
                expect.append(("P", sname, tuple(ssegs), canon_steps(ssegs, ssteps), ()))
                items = items[:2 * i] + [ref] + tail
        lines.append(["O", [rec.pos[0], " ".join(items)], [list(t) for t in rec.tags]])
        expect.append(("P", rec.pos[0], tuple(segl), canon_steps(segl, steps), strip_tags(rec.tags, set())))
    lines += extras
    return {"version": "gfa2", "lines": lines, "slen": slen, "ambiguous_paths": ambiguous}, expect, internal


def prop_gfa2(case):
    doc2, expect, internal = case["doc"], case["expect"], case.get("internal")
    lines = gen.doc_lines(doc2)
    amb = set(doc2.get("ambiguous_paths") or [])
    want = Counter(_tuplify(e) for e in expect)
    if amb:
        want = Counter({k: v for k, v in want.items() if not (k[0] == "P" and k[1] in amb)})
    for how in ("to_gfa1_s", "to_gfa1"):
        try:
            g = gfapy.Gfa(lines, version="gfa2", vlevel=1)
            text = g.to_gfa1_s() if how == "to_gfa1_s" else str(g.to_gfa1())
        except GfapyError as e:
            if amb:
                continue  # an item list that can be read in more than one way may be refused
            raise Violation("conversion-refused", "%s raised %s: %s\n%s" % (how, type(e).__name__, str(e)[:300], "\n".join(lines)), type(e).__name__)
        except Exception as e:
            raise Violation("conversion-foreign", "%s raised %s: %s\n%s" % (how, type(e).__name__, str(e)[:300], "\n".join(lines)), type(e).__name__)
        recs = parse_out(text, "gfa1", how + " output")
        got = canon_gfa1_for_roundtrip([x for x in recs if x.rt != "#" and not (x.rt == "P" and x.pos[0] in amb)])
        if got != want:
            raise Violation("gfa2-to-gfa1", "%s result differs from the model: %s\n-- source --\n%s\n-- result --\n%s" % (
                how, G.counter_diff(want, got), "\n".join(lines), text))
    _convert_after_edit(case, lines)
    # per-line conversion of records without counterpart must raise a gfapy.Error
    g = gfapy.Gfa(lines + ([G.Rec.from_plain(internal, "gfa2").text()] if internal else []), version="gfa2", vlevel=1)
    for l in g.lines:
        if l.record_type in ("G", "F", "U") or l.record_type not in "HSEOGFU#" or (l.record_type == "E" and l.is_internal()) or (
                l.record_type == "O" and l.name == "pcont"):
            try:
                res = l.to_gfa1()
            except GfapyError:
                continue
            except Exception as e:
                raise Violation("per-line-foreign", "to_gfa1() of %r raised %s: %s" % (str(l), type(e).__name__, str(e)[:200]), type(e).__name__)
            raise Violation("mistranslated", "to_gfa1() of %r (no GFA1 counterpart) returned %r" % (str(l), str(res)))
    if internal:
        try:
            t = g.to_gfa1_s()
            if "\t1M" in t and any(x.startswith(("L", "C")) and "1\t" in x for x in []):
                pass
            recs = [G.split_line(x, "gfa1") for x in t.split("\n") if x]
            got = canon_gfa1_for_roundtrip([x for x in recs if x.rt != "#"])
            if got != want:
                raise Violation("internal-mistranslated", "a graph with an internal E line converts to something else than the graph without it:\n%s" % t)
        except GfapyError:
            pass
    return {"nt": case.get("nt", False), "extras": any(l[0] in "GFUX" for l in doc2["lines"]), "internal": bool(internal)}


def _convert_after_edit(case, lines):
    """A Gfa that has been converted once and is then edited (an edge taken out and put back
    with another alignment) converts like a Gfa parsed afresh from its current text."""
    if not case.get("edit") or case["doc"].get("ambiguous_paths"):
        return
    try:
        g = gfapy.Gfa(lines, version="gfa2", vlevel=1)
        g.to_gfa1_s()
        cands = [e for e in g.edges if not gfapy.is_placeholder(e.name) and e.is_dovetail()]
        if not cands:
            return
        e = cands[case["edit"] % len(cands)]
        f = str(e).split("\t")
        f[8] = "3M1D2M" if f[8] != "3M1D2M" else "*"
        g.rm(e)
        g.add_line("\t".join(f))
        text = str(g)
    except Exception as ex:
        raise Violation("edit-raised", "replacing an edge of the converted Gfa raised %s: %s\n%s" % (type(ex).__name__, str(ex)[:300], "\n".join(lines)), type(ex).__name__)
    outs = []
    for what, mk in (("live", lambda: g), ("fresh", lambda: gfapy.Gfa(text, version="gfa2", vlevel=1))):
        try:
            t = mk().to_gfa1_s()
            outs.append(canon_gfa1_for_roundtrip([G.split_line(x, "gfa1") for x in t.split("\n") if x and not x.startswith("#")]))
        except GfapyError as ex:
            outs.append("raised " + type(ex).__name__)
        except Exception as ex:
            raise Violation("conversion-foreign", "%s conversion after the edit raised %s: %s\n%s" % (what, type(ex).__name__, str(ex)[:300], text), type(ex).__name__)
    if outs[0] != outs[1]:
        d = G.counter_diff(outs[1], outs[0]) if not isinstance(outs[0], str) and not isinstance(outs[1], str) else "%r vs %r" % (outs[0], outs[1])
        raise Violation("stale-after-edit", "the edited Gfa converts differently from a fresh parse of its text: %s\n-- text --\n%s" % (d, text))


def _tuplify(x):
    if isinstance(x, list):
        return tuple(_tuplify(y) for y in x)
    return x


def reorder(r, doc):
    """Half of the documents in another line order (paths before their links, links before
    their segments: forward references must convert like backward ones)."""
    if gen.chance(r, 0.5):
        head = [l for l in doc["lines"] if l[0] == "H"]
        rest = [l for l in doc["lines"] if l[0] != "H"]
        r.shuffle(rest)
        doc["lines"] = head + rest
        doc["reordered"] = True
    return doc


@st.composite
def st_gfa1(draw):
    r = draw(st.randoms(use_true_random=False))
    doc = reorder(r, build_conv_gfa1(r))
    return {"doc": doc}


def prop_rgfa(case):
    """The rGFA dialect is a subset of GFA1 (S lines with SN/SO/SR, L lines with 0M): such a graph, read with
    dialect='rgfa', converts like any GFA1 graph, and the converted Gfa object validates as the GFA2 it is."""
    doc, vlevel = case["doc"], case["vlevel"]
    lines = gen.doc_lines(doc)
    src = M.ModelDoc.from_doc(doc)
    for how in ("to_gfa2_s", "to_gfa2"):
        try:
            g = gfapy.Gfa(lines, vlevel=vlevel, dialect="rgfa", **({"version": "gfa1"} if case.get("explicit") else {}))
            if how == "to_gfa2_s":
                text = g.to_gfa2_s()
            else:
                g2 = g.to_gfa2()
                g2.validate()
                text = str(g2)
        except GfapyError as e:
            raise Violation("conversion-refused", "rGFA, %s at vlevel %d raised %s: %s\n%s" % (how, vlevel, type(e).__name__, str(e)[:300], "\n".join(lines)), "rgfa/" + type(e).__name__)
        except Exception as e:
            raise Violation("conversion-foreign", "rGFA, %s raised %s: %s\n%s" % (how, type(e).__name__, str(e)[:300], "\n".join(lines)), type(e).__name__)
        recs = parse_out(text, "gfa2", "rGFA " + how + " output")
        compare_gfa2(src, doc["slen"], recs, text, how)
        try:
            gfapy.Gfa(text, version="gfa2", vlevel=3).validate()
        except Exception as e:
            raise Violation("invalid-output", "the converted rGFA graph is not valid GFA2 (%s: %s)\n%s" % (type(e).__name__, str(e)[:200], text), "rgfa")
    return {"nt": sum(1 for l in doc["lines"] if l[0] == "L") >= 1, "rgfa": True}


@st.composite
def st_rgfa(draw):
    r = draw(st.randoms(use_true_random=False))
    names = list(gen.SEG_NAMES[:8])
    r.shuffle(names)
    segs = names[:r.randint(1, 4)]
    lines, slen = [], {}
    off = 0
    for s in segs:
        n = r.randint(1, 9)
        seq = gen.gen_sequence(r, n) if gen.chance(r, 0.7) else "*"
        tags = [["SN", "Z", gen.choice(r, ["chr1", "alt", "x"])], ["SO", "i", str(off)], ["SR", "i", str(r.randint(0, 2))]]
        if seq == "*":
            tags.append(["LN", "i", str(n)])
        if gen.chance(r, 0.3):
            tags.append(["xx", "Z", "more"])
        r.shuffle(tags)
        off += n
        slen[s] = n
        lines.append(["S", [s, seq], tags])
    seen = set()
    for _ in range(r.randint(0, 4)):
        a, b = gen.choice(r, segs), gen.choice(r, segs)
        pos = [a, gen.choice(r, "+-"), b, gen.choice(r, "+-"), "0M"]
        if M.ends_key(*pos[:4]) in seen:
            continue
        seen.add(M.ends_key(*pos[:4]))
        tags = []
        if gen.chance(r, 0.5):
            tags = [["SR", "i", str(r.randint(0, 2))], ["L1", "i", str(r.randint(0, 9))], ["L2", "i", str(r.randint(0, 9))]][:r.randint(1, 3)]
        lines.append(["L", pos, tags])
    if gen.chance(r, 0.5):
        r.shuffle(lines)
    return {"doc": {"version": "gfa1", "lines": lines, "slen": slen}, "vlevel": gen.choice(r, [0, 1, 2, 3]), "explicit": gen.chance(r, 0.5)}


GFA1_ONLY = {"=": "M", "X": "M", "N": "D", "S": "I"}


def prop_gfa1_only_ops(case):
    """An overlap with an operation GFA2 does not have (= X N S H) has no counterpart: the
    conversion raises a gfapy.Error or leaves a valid GFA2 document, at every vlevel."""
    doc, vlevel = case["doc"], case["vlevel"]
    lines = gen.doc_lines(doc)
    text = "\n".join(lines)
    for how in ("to_gfa2_s", "to_gfa2", "line"):
        try:
            g = gfapy.Gfa(lines, version="gfa1", vlevel=vlevel)
            if how == "line":
                outs = []
                for l in g.edges:
                    if str(l.overlap) in case["affected"]:
                        outs.append(l.to_gfa2_s())
                        outs.append(str(l.to_gfa2()))
                out = "\n".join(outs)
            else:
                out = g.to_gfa2_s() if how == "to_gfa2_s" else str(g.to_gfa2())
        except GfapyError:
            continue
        except Exception as e:
            raise Violation("conversion-foreign", "%s at vlevel %d raised %s: %s\n%s" % (how, vlevel, type(e).__name__, str(e)[:300], text), type(e).__name__)
        if how == "line":
            for o in outs:
                try:
                    gfapy.Line(o, version="gfa2", vlevel=3).validate()
                except Exception as e:
                    raise Violation("mistranslated", "per-line conversion at vlevel %d wrote %r, which is not a valid GFA2 line (%s)\n%s" % (vlevel, o, type(e).__name__, text), "line")
        else:
            recs = parse_out(out, "gfa2", "%s output (source with GFA1-only CIGAR operations, vlevel %d)" % (how, vlevel))
            bad = [x.text() for x in recs if x.rt == "E" and set(x.pos[7]) & set("=XNSH")]
            if bad:
                raise Violation("mistranslated", "GFA1-only CIGAR operations written to GFA2: %s" % bad)
    return {"nt": bool(case["affected"]), "vlevel0": vlevel == 0}


@st.composite
def st_gfa1_only_ops(draw):
    r = draw(st.randoms(use_true_random=False))
    doc = build_conv_gfa1(r)
    edges = [l for l in doc["lines"] if l[0] in "LC"]
    affected = []
    for l in (edges if gen.chance(r, 0.3) else [gen.choice(r, edges)] if edges else []):
        ops = G.canon_cigar(l[1][-1])
        out = []
        changed = False
        for n, op in ops:
            alt = [k for k, v in GFA1_ONLY.items() if v == op]
            if alt and (not changed or gen.chance(r, 0.5)):
                op = gen.choice(r, alt)
                changed = True
            out.append("%d%s" % (n, op))
        if not changed or gen.chance(r, 0.2):
            out.insert(r.randrange(len(out) + 1), "%dH" % r.randint(1, 3))
        l[1][-1] = "".join(out)
        affected.append(l[1][-1])
        # a path over this link states the same overlap
    for p in [l for l in doc["lines"] if l[0] == "P"]:
        p[1][2] = "*"
    doc["lines"] = [l for l in doc["lines"] if l[0] != "P" or gen.chance(r, 0.5)]
    return {"doc": doc, "vlevel": gen.choice(r, [0, 0, 1, 2, 3]), "affected": affected}


def build_two_cycle(r):
    """Two segments joined by two links in a cycle (a -> b and b -> a) and a path once around (or once and a
    half): given by its edges only, the O line leaves the direction of the first edge to be worked out."""
    la, lb = r.randint(6, 12), r.randint(6, 12)
    oa, ob = gen.choice(r, "+-"), gen.choice(r, "+-")
    ov1, ov2 = "%dM" % r.randint(1, 4), gen.choice(r, ["%dM" % r.randint(1, 4), "2M1I1M", "1M1D2M"])
    lines = [["S", ["a", "*"], [["LN", "i", str(la)]]], ["S", ["b", "*"], [["LN", "i", str(lb)]]],
             ["L", ["a", oa, "b", ob, ov1], []], ["L", ["b", ob, "a", oa, ov2], []]]
    if gen.chance(r, 0.5):
        lines.append(["P", ["pc", "a%s,b%s" % (oa, ob), "%s,%s" % (ov1, ov2)], []])  # circular
    else:
        lines.append(["P", ["pc", "a%s,b%s,a%s,b%s" % (oa, ob, oa, ob), "%s,%s,%s" % (ov1, ov2, ov1)], []])
    return {"version": "gfa1", "lines": lines, "slen": {"a": la, "b": lb}, "force_edges_only": True}


@st.composite
def st_gfa2(draw):
    r = draw(st.randoms(use_true_random=False))
    doc = build_two_cycle(r) if gen.fair(r, 0.08) else build_conv_gfa1(r)
    doc2, expect, internal = to_gfa2_doc(r, doc)
    reorder(r, doc2)
    ops = set()
    ors = set()
    for l in doc["lines"]:
        if l[0] in "LC":
            ops |= set(op for _n, op in G.canon_cigar(l[1][-1]))
            ors.add((l[1][1], l[1][3]))
    return {"doc": doc2, "expect": expect, "internal": internal, "nt": bool(ops & set("ID")) and len(ors) >= 2,
            "edit": r.randint(1, 50) if gen.chance(r, 0.6) else None}


def prop_whole(case):
    """A link whose overlap takes up a whole segment (on the from side, the to side or both): the E line has the
    model's intervals, '$' exactly where a position equals the segment length, and the output is valid at vlevel 3.
    (Read back, such an edge is a containment by the GFA2 definition; that direction is not judged.)"""
    lines, slen, p_ = case["lines"], case["slen"], case["link"]
    text1 = "\n".join(lines)
    want = m_link_to_edge(p_, slen)
    for how in ("to_gfa2_s", "to_gfa2", "line"):
        try:
            g = gfapy.Gfa(lines, version="gfa1", vlevel=case["vlevel"])
            if how == "line":
                text = "\n".join(x.to_gfa2_s() for x in g.lines)
            else:
                text = g.to_gfa2_s() if how == "to_gfa2_s" else str(g.to_gfa2())
        except Exception as e:
            raise Violation("conversion-refused", "%s raised %s: %s\n%s" % (how, type(e).__name__, str(e)[:300], text1), "whole/" + type(e).__name__)
        recs = parse_out(text, "gfa2", how + " output")
        es = [x for x in recs if x.rt == "E"]
        if len(es) != 1:
            raise Violation("edges", "%s: %d E lines for one link\n%s\n-- result --\n%s" % (how, len(es), text1, text), "whole")
        got = es[0].pos[1:7]
        if [str(x) for x in got] != [str(x) for x in want[:6]]:
            raise Violation("edges", "%s: E line %s, expected %s ('$' exactly at a segment's end)\n%s\n-- result --\n%s" % (
                how, got, want[:6], text1, text), "whole")
    return {"nt": True, "whole_overlap": case["side"]}


@st.composite
def st_whole(draw):
    r = draw(st.randoms(use_true_random=False))
    fo, to = gen.choice(r, "+-"), gen.choice(r, "+-")
    side = gen.choice(r, ["from", "to", "both"])
    k = r.randint(2, 9)
    ov = gen.choice(r, ["%dM" % k, "%dM" % k, "1M%dM" % (k - 1)])
    la = k if side in ("from", "both") else k + r.randint(1, 20)
    lb = k if side in ("to", "both") else k + r.randint(1, 20)
    seqs = gen.chance(r, 0.5)
    lines = ["S\ta\t%s" % (gen.gen_sequence(r, la) if seqs else "*\tLN:i:%d" % la), "S\tb\t%s" % (gen.gen_sequence(r, lb) if seqs else "*\tLN:i:%d" % lb),
             "L\ta\t%s\tb\t%s\t%s" % (fo, to, ov)]
    if gen.chance(r, 0.5):
        r.shuffle(lines)
    return {"lines": lines, "slen": {"a": la, "b": lb}, "link": ["a", fo, "b", to, ov], "side": side, "vlevel": gen.choice(r, [1, 2, 3])}


def prop_cli(case):
    """bin/gfapy-convert on a file: the printed document is judged like the result of to_gfa2_s() / to_gfa1_s()
    (valid at vlevel 3, same graph as the model derives); a graph holding records without counterpart may
    instead be refused (exit status 1, message, no traceback)."""
    from .. import cli
    doc = case["doc"]
    lines = gen.doc_lines(doc)
    v = doc["version"]
    try:
        rc, out, err = cli.run_script("gfapy-convert", ["x.gfa"], {"x.gfa": "\n".join(lines) + "\n"})
    except Exception as e:
        if type(e).__name__ == "TimeoutExpired":
            raise Violation("cli-hang", "gfapy-convert did not terminate on\n%s" % "\n".join(lines))
        raise
    if "Traceback" in err or rc not in (0, 1):
        raise Violation("cli-foreign", "gfapy-convert: exit status %s\n%s\n-- input --\n%s" % (rc, err[-1200:], "\n".join(lines)), (err.strip().split("\n") or [""])[-1].split(":")[0][:40])
    text = "\n".join(x for x in out.split("\n") if x)
    if v == "gfa1":
        if rc != 0:
            raise Violation("cli-refused", "gfapy-convert refuses a convertible GFA1 graph: %s\n%s" % (err[-400:], "\n".join(lines)))
        recs = parse_out(text, "gfa2", "gfapy-convert output")
        compare_gfa2(M.ModelDoc.from_doc(doc), doc["slen"], recs, text, "gfapy-convert")
        return {"nt": any(l[0] in "LC" for l in doc["lines"]), "cli": "gfa1"}
    extras = any(l[0] in "GFUX" for l in doc["lines"]) or case.get("internal")
    amb = set(doc.get("ambiguous_paths") or [])
    if rc != 0:
        if not extras and not amb:  # (an item list that can be read in more than one way may be refused, as in part gfa2)
            raise Violation("cli-refused", "gfapy-convert refuses a convertible GFA2 graph: %s\n%s" % (err[-400:], "\n".join(lines)))
        return {"nt": True, "cli": "gfa2-refused"}
    recs = parse_out(text, "gfa1", "gfapy-convert output")
    got = canon_gfa1_for_roundtrip([x for x in recs if x.rt != "#" and not (x.rt == "P" and x.pos[0] in amb)])
    want = Counter(_tuplify(e) for e in case["expect"])
    if amb:
        want = Counter({k: v for k, v in want.items() if not (k[0] == "P" and k[1] in amb)})
    if got != want:
        raise Violation("cli-gfa2-to-gfa1", "gfapy-convert result differs from the model: %s\n-- source --\n%s\n-- result --\n%s" % (
            G.counter_diff(want, got), "\n".join(lines), text))
    return {"nt": True, "cli": "gfa2"}


@st.composite
def st_cli(draw):
    if draw(st.booleans()):
        case = draw(st_gfa1())
        case["doc"]["version"] = "gfa1"
        return case
    case = draw(st_gfa2())
    case["doc"]["version"] = "gfa2"
    case.pop("internal", None)
    return case


def parts(tier):
    q = tier == "quick"
    return [Part("gfa1", prop_gfa1, strategy=st_gfa1(), n=300 if q else 1500, quick_shards=2),
            Part("gfa2", prop_gfa2, strategy=st_gfa2(), n=300 if q else 1500, quick_shards=2),
            Part("gfa1-only-ops", prop_gfa1_only_ops, strategy=st_gfa1_only_ops(), n=150 if q else 800),
            Part("rgfa", prop_rgfa, strategy=st_rgfa(), n=100 if q else 600,
                 note="the rGFA subset read with dialect='rgfa' and converted; the Gfa returned by to_gfa2() must validate"),
            Part("whole-overlap", prop_whole, strategy=st_whole(), n=120 if q else 600),
            Part("cli", prop_cli, strategy=st_cli(), n=40 if q else 120, quick_shards=3,
                 note="bin/gfapy-convert as a subprocess")]
