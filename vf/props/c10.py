"""C10 Read-only operations never modify anything."""
from hypothesis import strategies as st

from .. import gen, grammar as G, observe as O
from ..env import gfapy, GfapyError
from ..runner import Part, Violation

ID = "C10"
ATHERIS = ['purity']  # parts also driven by libFuzzer in the thorough tier (vf/runner.py: all_parts)
RULE = ("Gfa states from generated valid documents (<= 15 lines, asymmetric CIGARs, traces, nested groups, "
        "vlevel 0-3, both versions) and random sequences (<= 25, with repetition) of calls from an explicit "
        "catalogue of read-only operations named in the property (string conversion, field/tag reads, validation, "
        "clone, ==, diff, alignment complement and lengths, link complement/equivalence/compatibility, "
        "neighbourhood and topology queries, path/set resolution, searches). After EVERY call a deep fingerprint "
        "(written text of the Gfa and of every line, structural dump of every field value, ordered back-reference "
        "lists, namespace lists) must be unchanged, arguments included; the same call repeated must return an "
        "equal normalised result. non-trivial = the sequence has >= 3 distinct call kinds and >= 1 call on an "
        "alignment or link whose CIGAR has an I or D, or >= 1 successful resolution of a group (captured path / "
        "induced set). Part 'purity-queue': a Gfa of unknown version holding 1-5 lines that do not decide the version "
        "(L, C, P, custom records, comments) in its queue, 2-10 Gfa-level queries: (version, queue) unchanged after every "
        "call, repeated call equal, and the deciding lines added afterwards give the same document as without the "
        "queries; distinct by hash")
ASSUMPTIONS = [
    "conversions (to_gfa1/to_gfa2) are not in the statement (they assign ID tags by design) and are excluded",
    "the fingerprint is taken after one warm-up read of every field: at vlevel 0 the first access decodes lazily parsed fields and may re-spell them, which the property names as intended; at vlevel 0 texts are compared through the canonicaliser, at vlevel >= 1 literally",
    "a query may raise (purity is demanded, not success); an exception is treated as its result",
    "graphs are small (<= 15 lines) because the fingerprint is recomputed after every call",
]


def norm(x, depth=0):
    if depth > 6:
        return "..."
    if isinstance(x, gfapy.Line):
        return ("line", O.line_text(x))
    if isinstance(x, gfapy.OrientedLine):
        return ("ol", norm(x.line, depth + 1), x.orient)
    if isinstance(x, gfapy.SegmentEnd):
        return ("se", norm(x.segment, depth + 1), x.end_type)
    if isinstance(x, gfapy.FieldArray):
        return ("fa", x.datatype, norm(list(x._data), depth + 1))
    if isinstance(x, (gfapy.CIGAR, gfapy.Trace)):
        return (type(x).__name__, str(x))
    if isinstance(x, gfapy.Placeholder):
        return "*"
    if isinstance(x, (list, tuple)):
        return [norm(y, depth + 1) for y in x]
    if isinstance(x, set):
        return sorted(repr(norm(y, depth + 1)) for y in x)
    if isinstance(x, dict):
        return sorted((repr(k), repr(norm(v, depth + 1))) for k, v in x.items())
    if isinstance(x, (str, int, float, bool, bytes)) or x is None:
        return x
    if isinstance(x, BaseException):
        return ("raised", type(x).__name__)
    return ("obj", type(x).__name__, str(x))


def _shape(v, depth=0):
    """Cheap structural summary of a field value: type, size, and for containers the types (and identities of
    lines) of the elements - enough to see a list of lines turn into a list of strings, at a cost that does not
    grow with the square of the document."""
    if isinstance(v, gfapy.Line):
        return ("line", id(v))
    if isinstance(v, gfapy.OrientedLine):
        return ("ol", _shape(v.line, depth + 1), v.orient)
    if isinstance(v, (list, tuple)) or isinstance(v, gfapy.FieldArray):
        seq = list(v._data) if isinstance(v, gfapy.FieldArray) else list(v)
        return (type(v).__name__, len(seq), tuple(_shape(x, depth + 1) for x in seq) if depth < 2 else len(seq))
    if isinstance(v, dict):
        return ("dict", len(v), hash(repr(sorted(v.items(), key=repr))))
    if isinstance(v, str):
        return ("str", len(v), hash(v))
    return (type(v).__name__, hash(str(v)))


def fingerprint_light(gfa):
    fp = {}
    lines = O.all_lines(gfa, split_headers=False)
    per = []
    for l in lines:
        ent = [id(l), bool(l.virtual), l.is_connected()]
        for fn in list(l.positional_fieldnames) + list(l.tagnames):
            ent.append((fn, l._datatype.get(fn), _shape(l._data.get(fn))))
        for key in sorted(l._refs):
            ent.append((key, tuple(id(x) for x in l._refs[key])))
        per.append(ent)
    fp["lines"] = per
    fp["n"] = len(lines)
    fp["names"] = [list(gfa.segment_names), list(map(str, gfa.edge_names)), list(gfa.gap_names), list(gfa.path_names), list(gfa.set_names)]
    fp["ver"] = (gfa.version, gfa.vlevel)
    fp["text"] = str(gfa)  # (written last: writing is itself one of the read-only operations under test)
    return fp


def fingerprint(gfa, extra_lines=(), canon=False):
    fp = {}
    t = str(gfa)
    fp["text"] = repr(sorted(G.canon_doc(t, gfa.version).items(), key=repr)) if canon else t
    lines = O.all_lines(gfa, split_headers=False)
    fp["n"] = len(lines)
    per = []
    for l in list(lines) + list(extra_lines):
        ent = [O.line_text(l) if not canon else repr(O.line_key(l, gfa.version)), bool(l.virtual), l.is_connected()]
        for fn in list(l.positional_fieldnames) + list(l.tagnames):
            try:
                v = l._data.get(fn)
                ent.append((fn, l._datatype.get(fn), repr(norm(v)) if not (canon and isinstance(v, str)) else "s"))
            except Exception as e:
                ent.append((fn, "raised", type(e).__name__))
        for key in sorted(l._refs):
            ent.append((key, [repr(norm(x)) for x in l._refs[key]]))
        per.append(ent)
    fp["lines"] = per
    fp["names"] = [list(gfa.segment_names), list(map(str, gfa.edge_names)), list(gfa.gap_names), list(gfa.path_names),
                   list(gfa.set_names)]
    fp["ver"] = (gfa.version, gfa.vlevel, gfa._max_int_name if False else None)
    return fp


def fp_diff(a, b):
    out = []
    for k in a:
        if a[k] != b[k]:
            if k == "lines":
                for x, y in zip(a[k], b[k]):
                    if x != y:
                        out.append("line %r -> %r" % (x, y))
                        break
                if len(a[k]) != len(b[k]):
                    out.append("number of lines %d -> %d" % (len(a[k]), len(b[k])))
            else:
                out.append("%s: %r -> %r" % (k, str(a[k])[:600], str(b[k])[:600]))
    return "\n".join(out)[:3000]


# ---------------------------------------------------------------- catalogue
# each entry: name -> (applicability(line) or None for gfa-level, fn(gfa, line, other, k))

def _first_field(l, k):
    fns = list(l.positional_fieldnames) + list(l.tagnames)
    return fns[k % len(fns)] if fns else None


def _is(rt):
    return lambda l: l.record_type in rt


def _aln(l):
    if l.record_type in ("L", "C"):
        return l.overlap
    if l.record_type in ("E", "F"):
        return l.alignment
    return None


def _seg_end(l, k):
    return gfapy.SegmentEnd(l, "LR"[k % 2])


CAT = {
    "str": (lambda l: True, lambda g, l, o, k: str(l)),
    "repr": (lambda l: True, lambda g, l, o, k: repr(l)),
    "to_list": (lambda l: True, lambda g, l, o, k: l.to_list()),
    "to_str": (lambda l: l.record_type != "#", lambda g, l, o, k: l.to_str(add_virtual_commentary=bool(k % 2))),
    "field_to_s": (lambda l: l.record_type != "#", lambda g, l, o, k: l.field_to_s(_first_field(l, k), tag=_first_field(l, k) in l.tagnames)),
    "get": (lambda l: True, lambda g, l, o, k: l.get(_first_field(l, k))),
    "try_get": (lambda l: True, lambda g, l, o, k: l.try_get(_first_field(l, k))),
    "get_missing": (lambda l: True, lambda g, l, o, k: l.get("qq")),
    "tagnames": (lambda l: True, lambda g, l, o, k: (l.tagnames, l.positional_fieldnames)),
    "get_datatype": (lambda l: True, lambda g, l, o, k: l.get_datatype(_first_field(l, k))),
    "validate": (lambda l: True, lambda g, l, o, k: l.validate()),
    "validate_field": (lambda l: True, lambda g, l, o, k: l.validate_field(_first_field(l, k))),
    "clone": (lambda l: True, lambda g, l, o, k: str(l.clone())),
    "eq": (lambda l: True, lambda g, l, o, k: (l == o, l == l.clone(), l != o)),
    "diff": (lambda l: True, lambda g, l, o, k: l.diff(o if o.record_type == l.record_type and type(o) is type(l) else l.clone())),
    "refstr": (lambda l: True, lambda g, l, o, k: l.refstr()),
    "all_references": (lambda l: True, lambda g, l, o, k: l.all_references),
    "aln_complement": (lambda l: _aln(l) is not None, lambda g, l, o, k: _aln(l).complement()),
    "aln_lengths": (lambda l: isinstance(_aln(l), gfapy.CIGAR), lambda g, l, o, k: (_aln(l).length_on_reference(), _aln(l).length_on_query())),
    "aln_validate": (lambda l: _aln(l) is not None, lambda g, l, o, k: _aln(l).validate()),
    "aln_str": (lambda l: _aln(l) is not None, lambda g, l, o, k: (str(_aln(l)), repr(_aln(l)))),
    "link_complement": (_is("L"), lambda g, l, o, k: str(l.complement())),
    "link_is_complement": (_is("L"), lambda g, l, o, k: (l.is_complement(o), o.is_complement(l)) if o.record_type == "L" else l.is_complement(l.complement())),
    "link_is_eql": (_is("L"), lambda g, l, o, k: (l.is_eql(o), l.is_same(o)) if o.record_type == "L" else (l.is_eql(l.complement()), l.is_same(l))),
    "link_is_compatible": (_is("L"), lambda g, l, o, k: (l.is_compatible(o.oriented_from, o.oriented_to, o.overlap), l.is_compatible(l.oriented_to.inverted(), l.oriented_from.inverted(), l.overlap.complement())) if o.record_type == "L" else l.is_compatible(l.oriented_from, l.oriented_to, None)),
    "link_is_canonical": (_is("L"), lambda g, l, o, k: l.is_canonical()),
    "edge_ends": (lambda l: l.record_type in ("L", "E"), lambda g, l, o, k: (l.from_end, l.to_end, l.is_circular(), l.is_circular_same_end())),
    "edge_names": (lambda l: l.record_type in ("L", "C", "E"), lambda g, l, o, k: (l.from_name, l.to_name, l.from_orient, l.to_orient)),
    "edge_other": (lambda l: l.record_type in ("L", "C", "E"), lambda g, l, o, k: (l.other(l.from_segment), l.other(l.to_name))),
    "edge_other_end": (lambda l: l.record_type in ("L", "E"), lambda g, l, o, k: l.other_end(l.from_end if k % 2 else l.to_end)),
    "edge_type": (lambda l: l.record_type in ("L", "C", "E"), lambda g, l, o, k: (l.is_dovetail(), l.is_containment(), l.is_internal())),
    "edge_gfa2_props": (_is("E"), lambda g, l, o, k: (l.overlap, l.oriented_from, l.oriented_to)),
    "edge_pos": (lambda l: l.record_type in ("C", "E"), lambda g, l, o, k: (l.pos, l.rpos if l.record_type == "C" else None)),
    "edge_coords": (lambda l: l.record_type in ("L", "C"), lambda g, l, o, k: (l.from_coords, l.to_coords, l.eid, l.sid1, l.sid2)),
    "validate_positions": (lambda l: l.record_type in ("E", "F"), lambda g, l, o, k: l.validate_positions()),
    "seg_collections": (_is("S"), lambda g, l, o, k: (l.dovetails, l.dovetails_L, l.dovetails_R, l.containments, l.edges_to_contained, l.edges_to_containers, l.internals, l.gaps, l.gaps_L, l.gaps_R, l.fragments, l.paths, l.sets, l.edges)),
    "seg_of_end": (_is("S"), lambda g, l, o, k: (l.dovetails_of_end("LR"[k % 2]), l.gaps_of_end("LR"[k % 2]), l.neighbours_of_end("LR"[k % 2]))),
    "seg_neighbours": (_is("S"), lambda g, l, o, k: (l.neighbours, l.neighbours_L, l.neighbours_R, l.containers, l.contained)),
    "seg_relations_to": (_is("S"), lambda g, l, o, k: (l.relations_to(o if o.record_type == "S" else l), l.relations_to(l.name, "dovetails"))),
    "seg_end_relations": (_is("S"), lambda g, l, o, k: (l.end_relations("LR"[k % 2], _seg_end(o if o.record_type == "S" else l, k // 2), "dovetails"), l.oriented_relations("+-"[k % 2], gfapy.OrientedLine(o if o.record_type == "S" else l, "+-"[(k // 2) % 2]), "dovetails"))),
    "seg_connectivity": (_is("S"), lambda g, l, o, k: l._connectivity()),
    "seg_length": (_is("S"), lambda g, l, o, k: (l.length, l.try_get_length() if hasattr(l, "try_get_length") else None)),
    "seg_coverage": (_is("S"), lambda g, l, o, k: l.coverage()),
    "seg_wo_sequence": (_is("S"), lambda g, l, o, k: l.__str__(without_sequence=True)),
    "seg_component": (_is("S"), lambda g, l, o, k: sorted(s.name for s in g.segment_connected_component(l if k % 2 else l.name))),
    "is_cut_segment": (_is("S"), lambda g, l, o, k: g.is_cut_segment(l if k % 2 else l.name)),
    "is_cut_link": (lambda l: l.record_type == "L" or (l.record_type == "E" and l.is_dovetail()), lambda g, l, o, k: g.is_cut_link(l)),
    "linear_path": (_is("S"), lambda g, l, o, k: g.linear_path(l.name)),
    "path_links": (_is("P"), lambda g, l, o, k: (l.links, l.captured_path, l.captured_segments, l.captured_edges, l.is_circular(), l.is_linear())),
    "captured_path": (_is("O"), lambda g, l, o, k: l.captured_path),
    "captured_parts": (_is("O"), lambda g, l, o, k: (l.captured_segments, l.captured_edges)),
    "induced_set": (_is("U"), lambda g, l, o, k: l.induced_set),
    "induced_parts": (_is("U"), lambda g, l, o, k: (l.induced_segments_set, l.induced_edges_set)),
    "group_items": (lambda l: l.record_type in "OU", lambda g, l, o, k: l.items),
    "gap_fields": (_is("G"), lambda g, l, o, k: (l.sid1, l.sid2, l.disp, l.var)),
    "fragment_fields": (_is("F"), lambda g, l, o, k: (l.sid, l.external, l.s_beg, l.s_end, l.f_beg, l.f_end)),
    "pos_ops": (lambda l: l.record_type in ("E", "F"), lambda g, l, o, k: [
        (gfapy.posvalue(p_), gfapy.islastpos(p_), gfapy.isfirstpos(p_), str(p_), p_ == p_, p_ - 0, (p_ - 1) if gfapy.posvalue(p_) > 0 else None, p_ < 10 ** 9)
        for p_ in [l.get(fn_) for fn_ in l.positional_fieldnames if fn_[:3] in ("beg", "end") or fn_[:2] in ("s_", "f_")]]),
    "oriented_ops": (lambda l: l.record_type in ("E", "G", "O", "F"), lambda g, l, o, k: [
        (str(x_), x_.name, x_.orient, str(x_.inverted()), x_ == x_.inverted().inverted())
        for x_ in ([l.sid1, l.sid2] if l.record_type in "EG" else (list(l.items) if l.record_type == "O" else [l.external]))]),
    "segment_end_ops": (lambda l: l.record_type in ("L", "E") and (l.record_type == "L" or l.is_dovetail()), lambda g, l, o, k: (
        str(l.from_end.inverted()), str(l.to_end.inverted()), l.from_end == l.to_end, repr(l.from_end), l.from_end.name, l.from_end.end_type)),
    "link_hash": (_is("L"), lambda g, l, o, k: (hash(l) == hash(l.complement()), l.is_canonical(), str(l.canonicize()) if hasattr(l, "canonicize") and False else None)),
    "gfa_headers": (None, lambda g, l, o, k: [str(h) for h in g.headers]),
    # gfa level
    "gfa_str": (None, lambda g, l, o, k: str(g)),
    "gfa_validate": (None, lambda g, l, o, k: g.validate()),
    "gfa_collections": (None, lambda g, l, o, k: (g.lines, g.segments, g.edges, g.dovetails, g.containments, g.paths, g.sets, g.gaps, g.fragments, g.comments, g.custom_records, g.headers)),
    "gfa_names": (None, lambda g, l, o, k: (g.names, g.segment_names, g.edge_names, g.gap_names, g.path_names, g.set_names, g.external_names)),
    "gfa_header": (None, lambda g, l, o, k: (str(g.header), g.header.tagnames, g.n_input_header_lines)),
    "gfa_components": (None, lambda g, l, o, k: sorted(sorted(s.name for s in c) for c in g.connected_components())),
    "gfa_counts": (None, lambda g, l, o, k: (g.n_dovetails, g.n_containments, g.n_internals, g.n_dead_ends)),
    "gfa_linear_paths": (None, lambda g, l, o, k: g.linear_paths()),
    "gfa_line": (None, lambda g, l, o, k: (g.line(l.get("name")) if l.get("name") is not None else None, g.line("nope"), g.segment("nope"), g.segment(l))),
    "gfa_try_get": (None, lambda g, l, o, k: (g.try_get_line("nope"))),
    "gfa_select": (None, lambda g, l, o, k: (g.select({"record_type": l.record_type}), g.select(l))),
    # a criterion the caller built once and passes again (third element: the argument is made once per call pair and
    # has to be left as it was)
    "gfa_select_same_dict": (lambda l: l.record_type not in ("#", "H") and len(l.positional_fieldnames) >= 2,
                             lambda g, l, o, k, crit: g.select(crit), lambda g, l, o, k: _criterion(l, k)),
    "gfa_fragments_for_external": (None, lambda g, l, o, k: (g.fragments_for_external("read1"), g.fragments_for_external("nope"))),
    "gfa_search_duplicate": (None, lambda g, l, o, k: g._search_duplicate(l)),
    "gfa_custom": (None, lambda g, l, o, k: (g.custom_record_keys, g.custom_records_of_type("X"))),
    "gfa_version": (None, lambda g, l, o, k: (g.version, g.dialect, g.vlevel, g.is_rgfa())),
}
NAMES = sorted(CAT)


def _criterion(l, k):
    """{record_type, one positional field that is not the name}: what select() is given to find the lines that
    share a field value with l."""
    fns = [f for f in l.positional_fieldnames if f != l.__class__.NAME_FIELD] or list(l.positional_fieldnames)
    f = fns[k % len(fns)]
    return {"record_type": l.record_type, f: l.get(f)}


def prop(case):
    doc, vlevel = case["doc"], case["vlevel"]
    version = doc["version"]
    lines_t = gen.doc_lines(doc)
    try:
        g = gfapy.Gfa(list(lines_t), version=version, vlevel=vlevel)
    except Exception as e:
        raise Violation("load", "valid document not loaded: %s: %s\n%s" % (type(e).__name__, str(e)[:300], "\n".join(lines_t)), type(e).__name__)
    canon = vlevel == 0
    # warm-up
    for l in O.all_lines(g, split_headers=False):
        for fn in list(l.positional_fieldnames) + list(l.tagnames):
            try:
                l.get(fn)
            except Exception:
                pass
    if not case.get("light"):
        str(g)
    lines = [l for l in g.lines if l.record_type != "H"] + [g.header]
    if not lines:
        return {"nt": False}
    kinds = set()
    touched_id = False
    touched_group = False
    light = bool(case.get("light"))
    if light:
        canon = False

        def fingerprint(g_, canon=False):  # noqa: F811  (the cheap fingerprint for documents with hundreds of lines)
            return fingerprint_light(g_)
    else:
        fingerprint = globals()["fingerprint"]
    fp = fingerprint(g, canon=canon)
    for step, (name, i, j, k) in enumerate(case["calls"]):
        pred, fn = CAT[name][:2]
        make = CAT[name][2] if len(CAT[name]) > 2 else None
        l = lines[i % len(lines)]
        o = lines[j % len(lines)]
        if pred is not None:
            cands = [x for x in lines if pred(x)]
            if not cands:
                continue
            l = cands[i % len(cands)]
        results = []
        arg = make(g, l, o, k) if make else None
        arg0 = repr(norm(sorted(arg.items()))) if make else None
        for rep in range(2):
            try:
                results.append(norm(fn(g, l, o, k, arg) if make else fn(g, l, o, k)))
            except Exception as e:
                results.append(norm(e))
        if make and repr(norm(sorted(arg.items()))) != arg0:
            raise Violation("argument-changed", "call %d %s on %r changed the argument the caller passed: %s, now %r\n-- document --\n%s" % (
                step, name, O.line_text(l), arg0, norm(sorted(arg.items())), "\n".join(lines_t)), name)
        kinds.add(name)
        if name in ("captured_path", "captured_parts", "induced_set", "induced_parts") and not (
                isinstance(results[0], tuple) and results[0] and results[0][0] == "raised"):
            touched_group = True
        a = _aln(l)
        if isinstance(a, gfapy.CIGAR) and any(op.code in "ID" for op in a) and (name.startswith(("aln", "link", "edge")) or name == "eq"):
            touched_id = True
        fp2 = fingerprint(g, canon=canon)
        if fp2 != fp:
            raise Violation("impure", "call %d %s on %r (other %r, k=%d) changed the Gfa:\n%s\n-- document --\n%s" % (
                step, name, O.line_text(l), O.line_text(o), k, fp_diff(fp, fp2), "\n".join(lines_t)), name)
        if repr(results[0]) != repr(results[1]):
            raise Violation("unrepeatable", "call %d %s on %r gave %r then %r\n-- document --\n%s" % (
                step, name, O.line_text(l), results[0], results[1], "\n".join(lines_t)), name)
    return {"nt": len(kinds) >= 3 and (touched_id or touched_group), "version": version, "vlevel": vlevel,
            "resolved_group": touched_group}


@st.composite
def st_case(draw):
    r = draw(st.randoms(use_true_random=False))
    v = gen.choice(r, ["gfa1", "gfa2"])
    o = {"nseg": (1, 3), "comments": gen.chance(r, 0.2), "canonical": True, "both_forms": False, "ops": "MID"}
    doc = gen.build_gfa1(r, o) if v == "gfa1" else gen.build_gfa2(r, o)
    doc["lines"] = doc["lines"][:15]
    from .. import model as M
    m = M.ModelDoc.from_doc(doc)
    while not m.is_closed():
        und = m.undefined_mentions()
        ml = [p for p, _s in m.missing_links()]
        m.recs = [x for x in m.recs if not any(mm[0] in und for mm in M.mentions(x)) and not any(x is p for p in ml)]
    n = r.randint(3, 25)
    calls = [[gen.choice(r, NAMES), r.randrange(30), r.randrange(30), r.randrange(8)] for _ in range(n)]
    return {"doc": {"version": v, "lines": [x.plain() for x in m.recs]}, "vlevel": r.randrange(4), "calls": calls}


GROUP_CALLS = ["captured_path", "captured_parts", "induced_set", "induced_parts", "group_items", "str", "eq", "clone",
               "edge_ends", "edge_names", "edge_other", "edge_type", "seg_collections", "seg_neighbours", "gfa_str",
               "gfa_validate", "gfa_components", "gfa_collections", "edge_gfa2_props", "aln_complement"]


@st.composite
def st_group_case(draw):
    """States built around resolvable ordered groups (planted walks of C17) and sets."""
    from . import c17
    r = draw(st.randoms(use_true_random=False))
    segs, slen, lines, edges, pg, walk = c17.build_paths_case(r)
    groups = {}
    items, _el = c17.derive_items(r, pg, walk, segs, True, groups, lines)
    lines.append(["O", ["pp", " ".join(items)], []])
    if gen.chance(r, 0.5):
        lines.append(["O", ["rr", "pp-"], []])
    lines.append(["U", ["uu", " ".join([gen.choice(r, segs)] + [gen.choice(r, sorted(edges) + ["pp"]) for _ in range(r.randint(0, 2))])], []])
    n = r.randint(3, 20)
    calls = [[gen.choice(r, GROUP_CALLS), r.randrange(30), r.randrange(30), r.randrange(8)] for _ in range(n)]
    return {"doc": {"version": "gfa2", "lines": lines}, "vlevel": r.randrange(4), "calls": calls}


QUEUE_CALLS = {
    "str": lambda g: str(g), "lines": lambda g: g.lines, "names": lambda g: g.names, "segment_names": lambda g: g.segment_names,
    "segments": lambda g: g.segments, "dovetails": lambda g: g.dovetails, "containments": lambda g: g.containments,
    "edges": lambda g: g.edges, "paths": lambda g: g.paths, "comments": lambda g: g.comments, "headers": lambda g: g.headers,
    "header": lambda g: str(g.header), "validate": lambda g: g.validate(),
    "n_dovetails": lambda g: g.n_dovetails, "connected_components": lambda g: g.connected_components(),
    "linear_paths": lambda g: g.linear_paths(), "line": lambda g: g.line("A"), "segment": lambda g: g.segment("A"),
    "try_get": lambda g: g.try_get_line("A"), "custom_records": lambda g: g.custom_records,
    "custom_record_keys": lambda g: g.custom_record_keys, "fragments": lambda g: g.fragments, "version": lambda g: g.version,
    "eq": lambda g: g == g, "sets": lambda g: g.sets, "gaps": lambda g: g.gaps, "external_names": lambda g: g.external_names,
}
QUEUE_LINES = ["# c", "#", "L\tA\t+\tB\t-\t*", "L\tB\t+\tA\t+\t3M\tID:Z:l1", "C\tA\t+\tB\t+\t0\t*", "P\tp\tA+,B-\t*",
               "X\tcustom\txx:i:1", "Y\ta", "1\t2\t3"]
DECIDING = {"gfa1": ["S\tA\tACGT", "S\tB\t*\tLN:i:9"], "gfa2": ["S\tA\t4\tACGT", "S\tB\t9\t*"]}


def _queue_state(g):
    return (g.version, [str(x) for x in g._line_queue])


def prop_queue(case):
    """A Gfa whose version is not known yet keeps the lines that do not decide it in a queue:
    no read-only call may process the queue or fix the version, and what follows (lines that
    decide the version) must end in the same document as without those calls."""
    lines, vlevel, then = case["lines"], case["vlevel"], case["then"]

    def build():
        g_ = gfapy.Gfa(vlevel=vlevel)
        for l in lines:
            g_.add_line(l)
        return g_
    try:
        g, control = build(), build()
    except Exception as e:
        raise Violation("load", "queued lines not accepted: %s: %s %r" % (type(e).__name__, str(e)[:200], lines), type(e).__name__)
    s0 = _queue_state(g)
    for step, name in enumerate(case["calls"]):
        res = []
        for _rep in range(2):
            try:
                res.append(repr(norm(QUEUE_CALLS[name](g))))
            except Exception as e:
                res.append("raised " + type(e).__name__)
            s = _queue_state(g)
            if s != s0:
                raise Violation("impure", "call %d %s on a Gfa of unknown version with queued lines %r changed (version, queue) %r -> %r" % (
                    step, name, lines, s0, s), "queue/" + name)
        if res[0] != res[1]:
            raise Violation("unrepeatable", "call %s gave %s then %s (queued lines %r)" % (name, res[0][:300], res[1][:300], lines), "queue/" + name)
    outs = []
    for x in (g, control):
        try:
            for l in then:
                x.add_line(l)
            outs.append((x.version, str(x)))
        except GfapyError as e:
            outs.append("raised " + type(e).__name__)
        except Exception as e:
            outs.append("raised! " + type(e).__name__)
    if outs[0] != outs[1]:
        raise Violation("later-answer", "after the read-only calls %s the lines %r lead to %r, without the calls to %r (queued: %r)" % (
            case["calls"], then, outs[0], outs[1], lines), "queue")
    return {"nt": bool(s0[1]) and len(set(case["calls"])) >= 3, "queued": min(len(s0[1]), 4)}


@st.composite
def st_queue_case(draw):
    r = draw(st.randoms(use_true_random=False))
    lines = [gen.choice(r, QUEUE_LINES) for _ in range(r.randint(1, 5))]
    seen = set()
    lines = [l for l in lines if not (l in seen or seen.add(l)) or l.startswith("#")]
    calls = [gen.choice(r, sorted(QUEUE_CALLS)) for _ in range(r.randint(2, 10))]
    gfa2_ok = all(l[0] in "#XY1" for l in lines)
    v = gen.choice(r, ["gfa1", "gfa2"]) if gfa2_ok else "gfa1"
    return {"lines": lines, "vlevel": r.randrange(4), "calls": calls, "then": list(DECIDING[v])}


BIG_CALLS = ["str", "to_list", "to_str", "clone", "field_to_s", "get", "validate", "group_items", "induced_set", "induced_parts",
             "captured_path", "captured_parts", "path_links", "gfa_str", "eq", "refstr", "all_references", "seg_wo_sequence", "gfa_collections"]


def build_big(r, version):
    """A document with long fields: groups and paths over more than a hundred segments, sequences, strings, arrays and
    JSON values of several hundred characters (what a library may treat differently above some size)."""
    n = r.randint(105, 130)
    lines = []
    longseq = "".join(gen.choice(r, "ACGT") for _ in range(r.randint(520, 700)))
    big_tags = [["zb", "B", "i," + ",".join(str(r.randint(-5, 300)) for _ in range(260))],
                ["zj", "J", "[" + ", ".join(str(r.randint(0, 9)) for _ in range(300)) + "]"],
                ["zz", "Z", "x" * r.randint(520, 600)], ["zh", "H", "AF" * 300]]
    # the lines with long fields come first: the call sequences pick lines by small indices
    if version == "gfa2":
        lines.append(["U", ["bigset", " ".join("s%d" % i for i in range(n))], [big_tags[2]]])
        lines.append(["O", ["bigpath", " ".join(x for i in range(n - 1) for x in ("s%d+" % i, "e%d+" % i)) + " s%d+" % (n - 1)], []])
        lines.append(["O", ["bigsegs", " ".join("s%d+" % i for i in range(n))], []])
        lines.append(["S", ["s0", str(len(longseq)), longseq], big_tags[:2]])
        lines.append(["S", ["s1", "10", "*"], big_tags[2:]])
        lines += [["S", ["s%d" % i, "10", "*"], []] for i in range(2, n)]
        lines += [["E", ["e%d" % i, "s%d+" % i, "s%d+" % (i + 1), ("%d" % (len(longseq) - 2)) if i == 0 else "8", ("%d$" % len(longseq)) if i == 0 else "10$", "0", "2", "2M"], []]
                  for i in range(n - 1)]
    else:
        lines.append(["P", ["bigp", ",".join("s%d+" % i for i in range(n)), ",".join(["2M"] * (n - 1))], [big_tags[2]]])
        lines.append(["P", ["bigq", ",".join("s%d+" % i for i in range(n)), "*"], []])
        lines.append(["S", ["s0", longseq], big_tags[:2]])
        lines.append(["S", ["s1", "*"], [["LN", "i", "10"]] + big_tags[2:]])
        lines += [["S", ["s%d" % i, "*"], [["LN", "i", "10"]]] for i in range(2, n)]
        lines += [["L", ["s%d" % i, "+", "s%d" % (i + 1), "+", "2M"], []] for i in range(n - 1)]
    return {"version": version, "lines": lines}


@st.composite
def st_big_case(draw):
    r = draw(st.randoms(use_true_random=False))
    v = gen.choice(r, ["gfa1", "gfa2"])
    calls = [[gen.choice(r, BIG_CALLS), r.randint(0, 4), r.randint(0, 4), r.randint(0, 3)] for _ in range(r.randint(4, 9))]
    return {"doc": build_big(r, v), "vlevel": gen.choice(r, [1, 1, 2, 3]), "calls": calls, "light": True}


def parts(tier):
    q = tier == "quick"
    return [Part("purity", prop, strategy=st_case(), n=200 if q else 1500, quick_shards=4),
            Part("purity-big", prop, strategy=st_big_case(), n=12 if q else 80, quick_shards=4,
                 note="documents with long fields (groups and paths over 105-130 segments, values of several hundred characters)"),
            Part("purity-groups", prop, strategy=st_group_case(), n=150 if q else 1000, quick_shards=2),
            Part("purity-queue", prop_queue, strategy=st_queue_case(), n=300 if q else 2000,
                 note="Gfa of unknown version with queued lines; Gfa-level queries only")]
