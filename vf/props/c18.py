"""C18 Validation levels only change when errors surface, never the result."""
from hypothesis import strategies as st

from .. import model as M
from .. import gen, grammar as G, observe as O
from ..env import gfapy, GfapyError
from ..runner import Part, Violation
from . import c04, c07

ID = "C18"
ATHERIS = ['header-add', 'typed']  # parts also driven by libFuzzer in the thorough tier (vf/runner.py: all_parts)
RULE = ("part 'levels': generated valid documents loaded at vlevel 0,1,2,3: same observation (records compared "
        "through the canonicaliser between level 0 and the others, literally among 1,2,3), all accepted, version "
        "given or inferred; the same edit (rename of a referenced line, removal) gives the same document and graph "
        "at every level; an invalid sequence assigned to any segment of the Gfa is reported at the assignment at "
        "level 3 and at the write at level 2, also for the segments merge_linear_paths() creates; plus "
        "mutated (possibly invalid) documents: accepted at level k implies accepted at every lower level. part "
        "'assign': programs of field/tag assignments on stand-alone lines (7 tag datatypes and 17 positional "
        "slots; values = string forms that the independent grammar accepts or rejects: pool values and their "
        "single-character edits, and typed Python values) at vlevel 0-3 (per Line) followed by get / field_to_s / "
        "str / validate_field / validate. Invalid value: raises at the assignment at level 3, is reported at write "
        "time at level >= 2, makes validate_field raise at every level; valid value: nothing raises anywhere and "
        "the value reads back. part 'typed': programs of set / delete / set-to-None of valid Python values on "
        "custom tags, run at all four levels: never an exception, same written line at every level. non-trivial = program has >= 1 invalid and >= 1 valid assignment to a non-string "
        "datatype; distinct by hash")
ASSUMPTIONS = [
    "'reported at write time' = field_to_s raises, str(line) raises, or the written line carries the '# INVALID' marker",
    "values whose validity the grammar does not judge (see C04 assumptions) are not assigned",
    "assignments are made on stand-alone lines, where every field may be edited",
]


def load_levels(lines, version, auto=False):
    out = {}
    for k in range(4):
        try:
            out[k] = gfapy.Gfa(list(lines), vlevel=k) if auto else gfapy.Gfa(list(lines), version=version, vlevel=k)
        except GfapyError as e:
            out[k] = e
        except Exception as e:
            out[k] = e
    return out


def prop_levels(case):
    lines, version = case["lines"], case["version"]
    res = load_levels(lines, version, case.get("auto", False))
    acc = {k: isinstance(v, gfapy.Gfa) for k, v in res.items()}
    text = "\n".join(lines)
    for k in range(4):
        for j in range(k):
            if acc[k] and not acc[j]:
                raise Violation("not-monotone", "accepted at vlevel %d but refused at vlevel %d (%s: %s)\n%s" % (
                    k, j, type(res[j]).__name__, str(res[j])[:300], text), type(res[j]).__name__)
    if case["valid"]:
        for k in range(4):
            if not acc[k]:
                raise Violation("valid-refused", "valid document refused at vlevel %d: %s: %s\n%s" % (
                    k, type(res[k]).__name__, str(res[k])[:300], text), type(res[k]).__name__)
        texts = {k: str(res[k]) for k in range(4)}
        if not (texts[1] == texts[2] == texts[3]):
            raise Violation("text-differs", "levels 1,2,3 write different text\n-- 1 --\n%s\n-- 2 --\n%s\n-- 3 --\n%s" % (texts[1], texts[2], texts[3]))
        obs = {k: O.observe(res[k]) for k in range(4)}
        for k in (0, 2, 3):
            if obs[k] != obs[1]:
                raise Violation("graph-differs", "vlevel %d builds a different graph than vlevel 1:\n%s\n%s" % (k, O.obs_diff(obs[1], obs[k]), text), str(k))
        for k in range(4):
            try:
                res[k].validate()
                for l in res[k].lines:
                    l.validate()
            except Exception as e:
                raise Violation("valid-fails-validate", "valid document loaded at vlevel %d fails validate(): %s: %s\n%s" % (k, type(e).__name__, str(e)[:300], text), type(e).__name__)
        _same_after_edit(case, lines, version, text)
        _segments_have_the_level(case, lines, version, text)
    return {"nt": case["valid"] or any(acc.values()), "valid": case["valid"], "accepted_levels": sum(acc.values())}


def _same_after_edit(case, lines, version, text):
    """'Builds the same graph': the same edit (rename of a referenced line, removal of a line)
    has the same outcome at every level."""
    ed = case.get("edit")
    if not ed:
        return
    outs = {}
    for k, g in load_levels(lines, version, case.get("auto", False)).items():
        try:
            l = g.line(ed[1])
            if l is None:
                return
            if ed[0] == "rename":
                l.name = ed[2]
            else:
                g.rm(l)
            outs[k] = (G.canon_doc(str(g), version), O.observe(g) if k else None)
        except Exception as e:
            raise Violation("edit-raised", "%r on the valid document loaded at vlevel %d raised %s: %s\n%s" % (ed, k, type(e).__name__, str(e)[:300], text), type(e).__name__)
    for k in (0, 2, 3):
        if outs[k][0] != outs[1][0]:
            raise Violation("edit-differs", "after %r the document written at vlevel %d differs from vlevel 1: %s\n%s" % (
                ed, k, G.counter_diff(outs[1][0], outs[k][0]), text), "%s/%d" % (ed[0], k))
        if k and outs[k][1] != outs[1][1]:
            raise Violation("edit-differs", "after %r the graph at vlevel %d differs from vlevel 1:\n%s\n%s" % (ed, k, O.obs_diff(outs[1][1], outs[k][1]), text), "%s/%d" % (ed[0], k))


def _segments_have_the_level(case, lines, version, text):
    """An invalid sequence assigned to any segment of a Gfa is reported at the assignment at
    level 3 and at the write at level 2, whichever line it is and however the version was found."""
    for k, merged in ((2, False), (3, False), (2, True), (3, True)):
        g = load_levels(lines, version, case.get("auto", False))[k]
        if merged:
            # segments made by a graph operation belong to the Gfa like the others
            before = set(g.segment_names)
            try:
                g.merge_linear_paths()
            except Exception:
                continue
            if set(g.segment_names) == before:
                continue
        for l in list(g.segments):
            try:
                l.sequence = "AC GT"
                raised = False
            except GfapyError:
                raised = True
            except Exception as e:
                raise Violation("assign-foreign", "sequence = 'AC GT' raised %s: %s" % (type(e).__name__, str(e)[:200]), type(e).__name__)
            if k == 3 and not raised:
                raise Violation("not-reported-at-assignment", "Gfa at vlevel 3 (auto=%s): segment %s accepted sequence 'AC GT' silently\n%s" % (
                    case.get("auto"), l.name, text), "level3")
            if k == 2 and not raised and not reported_at_write(l, "sequence"):
                raise Violation("not-reported-at-write", "Gfa at vlevel 2 (auto=%s): segment %s writes sequence 'AC GT' without report\n%s" % (
                    case.get("auto"), l.name, text), "level2")


@st.composite
def st_levels(draw):
    r = draw(st.randoms(use_true_random=False))
    v = gen.choice(r, ["gfa1", "gfa2"])
    doc = gen.build_gfa1(r, {"nseg": (1, 4)}) if v == "gfa1" else gen.build_gfa2(r, {"nseg": (1, 4)})
    lines = gen.doc_lines(doc)
    if gen.chance(r, 0.5):
        m = M.ModelDoc.from_doc(doc)
        named = [x for x in m.recs if M.name_of(x) is not None and not (v == "gfa1" and x.rt in "LC")]
        edit = None
        if named:
            mentioned = set(mm[0] for x in m.recs for mm in M.mentions(x))
            pref = [x for x in named if M.name_of(x) in mentioned] or named
            tgt = gen.choice(r, pref)
            edit = gen.choice(r, [["rename", M.name_of(tgt), "renamed9"], ["rename", M.name_of(tgt), "renamed9"], ["rm", M.name_of(tgt)]])
        return {"version": v, "lines": lines, "valid": True, "auto": gen.chance(r, 0.5), "edit": edit}
    text = c07.mutate_text(r, "\n".join(lines), r.randint(1, 2))
    return {"version": v, "lines": text.split("\n"), "valid": False}


# ---------------------------------------------------------------- assignments

def reported_at_write(line, fn):
    try:
        line.field_to_s(fn)
    except Exception:
        return True
    try:
        s = str(line)
    except Exception:
        return True
    return "# INVALID" in s


def prop_assign(case):
    slot, vlevel = case["slot"], case["vlevel"]
    version, dt, carrier, fn, _closing = c04.SLOTS[slot]
    init = c04.POOL[slot][0] if slot in c04.POOL else None
    if init is None:
        return {"nt": False}
    text = carrier.format(init)
    try:
        line = gfapy.Line(text, version=version, vlevel=vlevel)
    except Exception as e:
        raise Violation("carrier", "carrier line %r rejected: %s" % (text, e))
    n_valid = n_invalid = 0
    try:
        line.validate()
    except Exception as e:
        raise Violation("carrier", "carrier line %r fails validate(): %s" % (text, e))
    if case.get("new_tag") and len(slot) == 1:
        # the values go to a tag the line does not have yet (with the datatype of the slot declared)
        fn = "zq"
        try:
            if slot != "Z":  # (a string value gets the datatype Z by itself: the tag is really new to the line)
                line.set_datatype(fn, dt)
        except Exception as e:
            raise Violation("carrier", "set_datatype(%r, %r) raised %s" % (fn, dt, e))
    for step, s in enumerate(case["values"]):
        if not c04.model_judged(slot, s) or s == "":
            continue
        valid = c04.model_accepts(slot, s)
        ctx = "slot %s (datatype %s) vlevel %d step %d: %s = %r" % (slot, dt, vlevel, step, fn, s)
        raised = None
        try:
            if case.get("via") == "attr" and fn.isidentifier():
                setattr(line, fn, s)
            else:
                line.set(fn, s)
        except Exception as e:
            raised = e
        if valid:
            n_valid += 1
            if raised is not None:
                raise Violation("valid-rejected-at-set", "%s raised %s: %s" % (ctx, type(raised).__name__, str(raised)[:200]), slot)
            try:
                line.validate_field(fn)
                got = line.get(fn)
                w = line.field_to_s(fn)
                full = str(line)
                line.validate()
            except Exception as e:
                raise Violation("valid-rejected", "%s: later call raised %s: %s" % (ctx, type(e).__name__, str(e)[:300]), "%s/%s" % (slot, type(e).__name__))
            if "# INVALID" in full:
                raise Violation("valid-marked", "%s: written with INVALID marker: %r" % (ctx, full), slot)
            if dt in G.RE and G.canon_field(dt, w) != G.canon_field(dt, s):
                raise Violation("read-back", "%s: written as %r" % (ctx, w), slot)
        else:
            n_invalid += 1
            if vlevel >= 3 and raised is None:
                raise Violation("invalid-not-reported-at-set", "%s: assignment at vlevel 3 raised nothing" % ctx, slot)
            if raised is None:
                if line._data.get(fn) != s:
                    raise Violation("set-lost", "%s: assignment raised nothing but the field holds %r" % (ctx, line._data.get(fn)), slot)
                try:
                    line.validate_field(fn)
                    rep = False
                except Exception:
                    rep = True
                if not rep:
                    raise Violation("invalid-passes-validate_field", "%s: validate_field raises nothing" % ctx, slot)
                try:
                    line.validate()
                    rep = False
                except Exception:
                    rep = True
                if not rep:
                    raise Violation("invalid-passes-validate", "%s: validate() of the line raises nothing" % ctx, slot)
                if vlevel >= 2 and not reported_at_write(line, fn):
                    raise Violation("invalid-written", "%s: written without report at vlevel %d: %r" % (ctx, vlevel, str(line)), slot)
                # put a valid value back so that the next step starts clean
                try:
                    line.set(fn, init)
                    line.validate()
                except Exception as e:
                    raise Violation("recover", "%s: cannot assign the valid value %r afterwards: %s" % (ctx, init, e), slot)
    inplace = None
    if case.get("inplace") and slot in ("B", "alignment_gfa1", "alignment_gfa2"):
        # the decoded value of the field is edited in place until it is no value of the datatype any more and the
        # very same object is assigned back: that is an assignment like any other
        try:
            line.set(fn, init)
            v = line.get(fn)
            if slot == "B":
                v.append(2.5 if not isinstance(v[0], float) else "x")
            elif isinstance(v, gfapy.CIGAR) and len(v):
                v[0].code = "?"
            else:
                v = None
        except Exception:
            v = None
        if v is not None:
            inplace = slot
            ctx = "slot %s vlevel %d: the value read from %s, edited in place to %r and assigned back" % (slot, vlevel, fn, v)
            try:
                line.set(fn, v)
                raised = None
            except Exception as e:
                raised = e
            if vlevel >= 3 and raised is None:
                raise Violation("invalid-not-reported-at-set", "%s: assignment at vlevel 3 raised nothing" % ctx, slot + "/inplace")
            if raised is None:
                try:
                    line.validate_field(fn)
                    raise Violation("invalid-passes-validate_field", "%s: validate_field raises nothing" % ctx, slot + "/inplace")
                except Violation:
                    raise
                except Exception:
                    pass
    return {"nt": n_valid >= 1 and n_invalid >= 1 and dt not in ("Z", "A"), "slot": slot, "vlevel": vlevel, "new_tag": bool(case.get("new_tag")), "inplace": inplace}


WRONG_TYPE = [
    # (line, version, field, values of a Python type the field's datatype has no reading for)
    ("C\ta\t+\tb\t+\t3\t*", "gfa1", "pos", [1.5, [1], {}, None]),
    ("P\tp\ta+,b+\t*", "gfa1", "segment_names", [[], {}, 5]),
    ("P\tp\ta+,b+\t*", "gfa1", "overlaps", [5, {}, 1.5]),
    ("L\ta\t+\tb\t+\t*", "gfa1", "overlap", [5, 1.5, {}]),
    ("L\ta\t+\tb\t+\t*", "gfa1", "from_orient", [5, [1]]),
    ("S\ta\t*", "gfa1", "sequence", [5, [1], {}, None]),
    ("E\te\ta+\tb+\t0\t1\t0\t1\t*", "gfa2", "alignment", [5, 1.5, {}]),
    ("E\te\ta+\tb+\t0\t1\t0\t1\t*", "gfa2", "beg1", [1.5, [1], {}]),
    ("E\te\ta+\tb+\t0\t1\t0\t1\t*", "gfa2", "sid1", [5, [1]]),
    ("S\ta\t10\t*", "gfa2", "slen", [1.5, [1]]),
    ("S\ta\t10\t*", "gfa2", "sequence", [5, [1]]),
    ("S\ta\t10\t*", "gfa2", "sid", [5, [1]]),
    ("G\tg\ta+\tb-\t5\t*", "gfa2", "disp", [1.5, [1]]),
    ("G\tg\ta+\tb-\t5\t*", "gfa2", "var", [1.5, [1]]),
    ("O\to\ta+ b+", "gfa2", "items", [[], 5, {}]),
    ("U\tu\ta b", "gfa2", "items", [[], 5]),
    ("F\ts\tr+\t0\t1\t0\t1\t*", "gfa2", "external", [5, [1], None]),
    ("F\ts\tr+\t0\t1\t0\t1\t*", "gfa2", "s_beg", [1.5, {}]),
]


def prop_wrong_type(case):
    """A value of a Python type the datatype of a positional field has no reading for (a float for a position, an
    empty list or a dict for a list of references, a number for an alignment ...) is an invalid value like any
    other: reported at the assignment at level 3, by validate_field() and validate() at every level, and no
    later than the write at level 2.  (Any exception counts as a report, design rule 4.4.)"""
    text, version, fn, v, vlevel = case["line"], case["version"], case["field"], case["value"], case["vlevel"]
    line = gfapy.Line(text, version=version, vlevel=vlevel)
    ctx = "%r at vlevel %d: %s = %r" % (text, vlevel, fn, v)
    try:
        if case.get("via") == "attr":
            setattr(line, fn, v)
        else:
            line.set(fn, v)
        raised = None
    except Exception as e:
        raised = e
    if raised is None:
        if vlevel >= 3:
            raise Violation("invalid-not-reported-at-set", "%s: assignment at vlevel 3 raised nothing" % ctx, fn + "/" + type(v).__name__)
        for what, call in (("validate_field", lambda: line.validate_field(fn)), ("validate", lambda: line.validate())):
            try:
                call()
            except Exception:
                continue
            raise Violation("invalid-passes-" + what, "%s: %s() raises nothing" % (ctx, what), fn + "/" + type(v).__name__)
        if vlevel >= 2 and not reported_at_write(line, fn):
            raise Violation("invalid-written", "%s: written without report at vlevel %d: %r" % (ctx, vlevel, str(line)), fn + "/" + type(v).__name__)
    return {"nt": True, "field": fn, "type": type(v).__name__, "at_set": raised is not None}


def enum_wrong_type(shard, nshards):
    i = 0
    for text, version, fn, vals in WRONG_TYPE:
        for v in vals:
            for vlevel in (0, 1, 2, 3):
                i += 1
                if i % nshards == shard:
                    yield {"line": text, "version": version, "field": fn, "value": v, "vlevel": vlevel, "via": "attr" if i % 3 == 0 else "set"}


def edits(r, v, alpha):
    k = r.randrange(3)
    if k == 0 and v:
        p = r.randrange(len(v))
        return v[:p] + v[p + 1:]
    if k == 1:
        p = r.randint(0, len(v))
        return v[:p] + gen.choice(r, alpha) + v[p:]
    if v:
        p = r.randrange(len(v))
        return v[:p] + gen.choice(r, alpha) + v[p + 1:]
    return gen.choice(r, alpha)


@st.composite
def st_assign(draw):
    r = draw(st.randoms(use_true_random=False))
    slot = gen.choice(r, sorted(s for s in c04.SLOTS if s in c04.POOL and s != "custom_record_type"))
    alpha = sorted(set(c04.ALPHA[slot] + c04.EXTRA))
    vals = []
    for _ in range(r.randint(2, 6)):
        v = gen.choice(r, c04.POOL[slot])
        if gen.chance(r, 0.55):
            v = edits(r, v, alpha)
            if gen.chance(r, 0.2):
                v = edits(r, v, alpha)
        vals.append(v)
    extra = {"B": ["C,256", "c,-129", "c,128", "s,32768", "S,65536", "i,2147483648", "I,4294967296", "I,-1", "f,1e999"],
             "H": ["ABC", "0", "abcd"], "f": ["1e999", "nan", "inf"], "i": ["1.0", "1e3"], "J": ["{", "[1,]", "{'a':1}"],
             "position_gfa2": ["$", "-1", "5$$"], "alignment_gfa2": ["1S", "5=", "1,-2"]}
    if slot in extra and gen.chance(r, 0.5):
        vals.insert(r.randint(0, len(vals)), gen.choice(r, extra[slot]))
    return {"slot": slot, "vlevel": r.randrange(4), "values": vals, "via": gen.choice(r, ["set", "attr"]),
            "new_tag": gen.chance(r, 0.3), "inplace": gen.chance(r, 0.4)}


# ---------------------------------------------------------------- typed programs, all levels

TYPED = [13, -2, 2.5, 1e-7, "text", "c", {"k": [1, 2]}, ["a", 1], [1, 2, 300], [0.5, 1.5]]


def typed_value(v):
    if isinstance(v, list) and v and all(isinstance(x, (int, float)) for x in v):
        return gfapy.NumericArray(v)
    return v


def run_program(prog, vlevel):
    lines = [gfapy.Line("S\tA\t*\txx:i:1", vlevel=vlevel)]
    for step, (op, name, vi, via) in enumerate(prog):
        which = 0
        if isinstance(via, list):
            via, which = via
        line = lines[which % len(lines)]
        try:
            if op == "clone":
                # a copy of the line (also a copy of a copy): from now on two lines are edited side by side
                lines.append(line.clone())
                continue
            if op == "set":
                v = typed_value(TYPED[vi % len(TYPED)])
                if via == "attr":
                    setattr(line, name, v)
                else:
                    line.set(name, v)
                line.validate_field(name)
                line.field_to_s(name, tag=True)
            elif op == "delete":
                line.delete(name)
            else:
                line.set(name, None)
            s_ = str(line)
            line.validate()
        except Exception as e:
            raise Violation("valid-program-rejected", "vlevel %d: step %d %r of the program %r raised %s: %s" % (
                vlevel, step, (op, name, TYPED[vi % len(TYPED)] if op == "set" else None, via), prog, type(e).__name__, str(e)[:200]),
                "%s/%s" % (op, type(e).__name__))
        if "# INVALID" in s_:
            raise Violation("valid-program-marked", "vlevel %d: after step %d of %r the line is written as %r" % (vlevel, step, prog, s_))
    return "\n".join(str(x) for x in lines)


def prop_typed(case):
    prog = case["prog"]
    texts = {k: run_program(prog, k) for k in range(4)}
    if len(set(texts.values())) != 1:
        raise Violation("levels-disagree", "the same valid program %r writes different lines at the four levels: %r" % (prog, texts))
    kinds = set(p[0] for p in prog)
    return {"nt": len(prog) >= 3 and len(kinds) >= 2, "len": len(prog)}


@st.composite
def st_typed(draw):
    r = draw(st.randoms(use_true_random=False))
    def kind(v):
        if isinstance(v, bool):
            return "?"
        if isinstance(v, int):
            return "i"
        if isinstance(v, float):
            return "f"
        if isinstance(v, str):
            return "Z"
        if isinstance(v, list) and v and all(isinstance(x, (int, float)) for x in v):
            return "B"
        return "J"
    prog = []
    curs = [{}]
    with_clones = gen.chance(r, 0.4)
    for _ in range(r.randint(1, 7)):
        op = gen.choice(r, ["set", "set", "set", "delete", "none"] + (["clone"] if with_clones and len(curs) < 3 else []))
        name = gen.choice(r, ["zz", "ab", "q1"])
        vi = r.randrange(len(TYPED))
        which = r.randrange(len(curs))
        cur = curs[which]
        if op == "clone":
            curs.append(dict(cur))
        elif op == "set":
            if name in cur:
                # the datatype of an existing tag stays: only a value of the same kind is valid
                same = [i for i, v in enumerate(TYPED) if kind(v) == cur[name]]
                vi = gen.choice(r, same)
            cur[name] = kind(TYPED[vi])
        else:
            cur.pop(name, None)
        via = gen.choice(r, ["set", "attr"])
        prog.append([op, name, vi, [via, which] if with_clones else via])
    return {"prog": prog}


# ---------------------------------------------------------------- header.add (multi-definition tags)

HVALS = {"i": [5, -7, 0], "f": [2.5, -0.5], "Z": ["abc", "x y"], "A": ["c", "Q"]}
HBAD = {"i": ["abc", "1x"], "f": ["abc", "1.5.2"], "A": ["abc", ""], "Z": ["a\tb", "a\nb"]}


def prop_header_add(case):
    """header.add(tag, value[, datatype]) is the documented way to assign a further value of a header tag: a value
    the tag's datatype cannot hold is reported at the call at level 3, at the latest when written at level 2, by
    validate_field()/validate() at every level; a valid one is never rejected, and all levels write the same."""
    texts = {}
    for vlevel in range(4):
        if case["in_gfa"]:
            g = gfapy.Gfa(case["start"], vlevel=vlevel)
            h = g.header
        else:
            h = gfapy.Line(case["start"][0], vlevel=vlevel)
        for step, (tag, dt, vi, bad, explicit) in enumerate(case["prog"]):
            value = (HBAD if bad else HVALS)[dt][vi % len((HBAD if bad else HVALS)[dt])]
            args = (tag, value, dt) if explicit else (tag, value)
            what = "vlevel %d, header %r, step %d: add%r of the program %r" % (vlevel, case["start"], step, args, case["prog"])
            before = str(h)
            try:
                h.add(*args)
                raised = None
            except Exception as e:
                raised = e
            if not bad:
                if raised is not None:
                    raise Violation("valid-add-rejected", "%s raised %s: %s" % (what, type(raised).__name__, str(raised)[:200]), "%s/%s" % (dt, "explicit" if explicit else "default"))
                try:
                    h.validate_field(tag)
                    h.validate()
                    w = str(h)
                except Exception as e:
                    raise Violation("valid-add-rejected", "%s: afterwards validation / writing raised %s: %s" % (what, type(e).__name__, str(e)[:200]), dt)
                if "# INVALID" in w:
                    raise Violation("valid-add-marked", "%s: the header is written as %r" % (what, w))
                continue
            # an invalid value
            if raised is not None:
                if str(h) != before:
                    raise Violation("refused-add-changed", "%s was refused but the header changed from %r to %r" % (what, before, str(h)))
                continue
            if vlevel == 3:
                raise Violation("invalid-add-accepted", "%s raised nothing" % what, "%s/%s" % (dt, "explicit" if explicit else "default"))
            try:
                h.validate_field(tag)
                raise Violation("invalid-add-validates", "%s: validate_field(%r) does not report it" % (what, tag), dt)
            except Violation:
                raise
            except Exception:
                pass
            if vlevel == 2 and not reported_at_write(h, tag):
                raise Violation("invalid-add-written", "%s: written at level 2 without a report: %r" % (what, str(h)), dt)
            break
        else:
            texts[vlevel] = str(h)
    if len(set(texts.values())) > 1:
        raise Violation("levels-disagree", "the same valid header program %r writes different lines: %r" % (case["prog"], texts))
    return {"nt": len(case["prog"]) >= 2 and any(p[3] for p in case["prog"]) and any(not p[3] for p in case["prog"]),
            "in_gfa": case["in_gfa"], "explicit_datatype": any(p[4] for p in case["prog"])}


@st.composite
def st_header_add(draw):
    r = draw(st.randoms(use_true_random=False))
    tags = {}
    start_tags = []
    for t in ["xx", "yy"]:
        if gen.chance(r, 0.6):
            dt = gen.choice(r, sorted(HVALS))
            tags[t] = dt
            v = gen.choice(r, HVALS[dt])
            start_tags.append("%s:%s:%s" % (t, dt, v))
    start = ["H\t" + "\t".join(start_tags)] if start_tags else ["H"]
    if len(start_tags) == 2 and gen.chance(r, 0.3):
        start = ["H\t" + start_tags[0], "H\t" + start_tags[1]]
    in_gfa = gen.chance(r, 0.5) or len(start) > 1
    prog = []
    for _ in range(r.randint(1, 5)):
        t = gen.choice(r, ["xx", "yy", "zz"])
        bad = gen.chance(r, 0.35)
        if t in tags:
            dt = tags[t]
            explicit = gen.chance(r, 0.3)
        else:
            dt = gen.choice(r, sorted(HVALS))
            # a new tag: the default datatype of the value decides unless a datatype is given; an invalid
            # value for a new tag only exists with respect to an explicit datatype
            explicit = bad or dt == "A" or gen.chance(r, 0.3)
            if not bad:
                tags[t] = dt
        prog.append([t, dt, r.randrange(4), bad, explicit])
    return {"start": start, "in_gfa": in_gfa, "prog": prog}


def parts(tier):
    q = tier == "quick"
    return [Part("levels", prop_levels, strategy=st_levels(), n=300 if q else 2000, quick_shards=4),
            Part("assign", prop_assign, strategy=st_assign(), n=2500 if q else 15000, quick_shards=4),
            Part("wrong-type", prop_wrong_type, enum=enum_wrong_type, exhaustive=True,
                 note="positional fields given values of a Python type their datatype cannot hold, every level"),
            Part("typed", prop_typed, strategy=st_typed(), n=600 if q else 4000, quick_shards=2),
            Part("header-add", prop_header_add, strategy=st_header_add(), n=500 if q else 3000, quick_shards=2)]
