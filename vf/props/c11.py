"""C11 Segment neighbourhoods match the specification's edge semantics."""
import itertools

from hypothesis import strategies as st

from .. import gen, grammar as G, model as M, observe as O
from ..env import gfapy, GfapyError
from ..runner import Part, Violation

ID = "C11"
ATHERIS = ['graphs']  # parts also driven by libFuzzer in the thorough tier (vf/runner.py: all_parts)
RULE = ("part 'table' (exhaustive): every E line over (o1,o2) in {+,-}^2 x interval kind of each side in "
        "{empty prefix, prefix, whole, inner, empty inner, suffix, empty suffix} (196 cells) x {E after its "
        "segments, E before its segments} x {two segments, self-edge}, and every L, C, G line over the 4 "
        "orientation pairs x {distinct, self, parallel}; every cell is a non-trivial case. part 'graphs': "
        "generated GFA1/GFA2 documents; non-trivial = some segment has >= 2 entries in one collection. parts "
        "'hist-*': the same comparisons after every step of a model-based history (removals, renames, "
        "placeholder substitution); non-trivial = a removal or rename happened at a closed state. Oracle: "
        "collections (dovetails_L/R, edges_to_contained/containers, internals, gaps_L/R, fragments, paths, sets), "
        "is_dovetail/containment/internal, from_end/to_end/other_end/other, neighbours(_L/_R), containers, "
        "contained, containments, edges, connectivity, gfa.dovetails/containments compared with the model")
ASSUMPTIONS = [
    "positions carry '$' exactly at the segment length (valid documents)",
    "for an E line whose two intervals are both 'whole' the specification does not say which segment is the container: only 'is a containment, filed once on each segment' is demanded",
]

KIND_POS = {"pfx0": ("0", "0"), "pfx": ("0", "4"), "whole": ("0", "10$"), "inner": ("3", "6"),
            "inner0": ("5", "5"), "sfx": ("6", "10$"), "sfx0": ("10$", "10$")}


_GFA = [None]


def names_multiset(lines):
    """Names of the segments an answer consists of; every one of them is the segment of the graph (the object
    gfa.segment(name) returns), not a look-alike left over from a placeholder."""
    out = []
    for x in lines:
        if isinstance(x, str):
            out.append(x)
            continue
        out.append(x.name)
        g = _GFA[0]
        if g is not None and isinstance(x, gfapy.Line) and g.segment(x.name) is not x:
            raise Violation("answer-not-of-graph", "an answer contains a segment object named %r which is not the segment of the graph (virtual: %r)" % (
                x.name, getattr(x, "virtual", None)))
    return sorted(out)


def check_derived(gfa, model):
    """neighbours / containers / contained / other_end / connectivity / graph-level lists."""
    version = model.version
    exp = model.expected_refs()
    recs = {id(r): r for r in model.recs}
    dov = model.dovetails()
    _GFA[0] = gfa
    for srec in model.segments():
        sn = srec.pos[0]
        s = gfa.segment(sn)
        if s is None:
            raise Violation("segment-missing", "segment %s not found" % sn)
        for end in "LR":
            # expected neighbours over that end: one per distinct edge
            want = []
            for r, a, b in dov:
                if a == (sn, end) and b == (sn, end):
                    want.append(sn)
                elif a == (sn, end):
                    want.append(b[0])
                elif b == (sn, end):
                    want.append(a[0])
            got = names_multiset(getattr(s, "neighbours_" + end))
            if sorted(want) != got:
                raise Violation("neighbours", "neighbours_%s of %s: expected %s got %s\n%s" % (end, sn, sorted(want), got, model.text()))
            if names_multiset(s.neighbours_of_end(end)) != got:
                raise Violation("neighbours_of_end", "differs from neighbours_%s on %s" % (end, sn))
            d1 = [O.line_key(x, version) for x in s.dovetails_of_end(end)]
            d2 = [O.line_key(x, version) for x in getattr(s, "dovetails_" + end)]
            if d1 != d2:
                raise Violation("dovetails_of_end", "differs from dovetails_%s on %s" % (end, sn))
        allwant = []
        for r, a, b in dov:
            if a[0] == sn and b[0] == sn:
                allwant.append(sn)
            elif a[0] == sn:
                allwant.append(b[0])
            elif b[0] == sn:
                allwant.append(a[0])
        if names_multiset(s.neighbours) != sorted(allwant):
            raise Violation("neighbours", "neighbours of %s: expected %s got %s\n%s" % (sn, sorted(allwant), names_multiset(s.neighbours), model.text()))
        nl = sum(1 for _r, a, b in dov for x in (a, b) if x == (sn, "L"))
        nr = sum(1 for _r, a, b in dov for x in (a, b) if x == (sn, "R"))
        sym = lambda n: "M" if n > 1 else n
        if tuple(s._connectivity()) != (sym(nl), sym(nr)):
            raise Violation("connectivity", "connectivity of %s: expected %s got %s\n%s" % (sn, (sym(nl), sym(nr)), s._connectivity(), model.text()))
        # containers / contained
        want_containers, want_contained = [], []
        for r in model.recs:
            if version == "gfa1" and r.rt == "C":
                if r.pos[2] == sn:
                    want_containers.append(r.pos[0])
                if r.pos[0] == sn:
                    want_contained.append(r.pos[2])
            elif version == "gfa2" and r.rt == "E" and M.classify_edge(r)[0] == "C" and not M.both_whole(r):
                _k, k1, k2 = M.classify_edge(r)
                n1, n2 = r.pos[1][:-1], r.pos[2][:-1]
                container, contained = (n1, n2) if k1 == "edges_to_contained" else (n2, n1)
                if contained == sn:
                    want_containers.append(container)
                if container == sn:
                    want_contained.append(contained)
        has_bw = any(version == "gfa2" and r.rt == "E" and M.both_whole(r) and sn in (r.pos[1][:-1], r.pos[2][:-1]) for r in model.recs)
        if not has_bw:
            if names_multiset(s.containers) != sorted(want_containers):
                raise Violation("containers", "containers of %s: expected %s got %s\n%s" % (sn, sorted(want_containers), names_multiset(s.containers), model.text()))
            if names_multiset(s.contained) != sorted(want_contained):
                raise Violation("contained", "contained of %s: expected %s got %s\n%s" % (sn, sorted(want_contained), names_multiset(s.contained), model.text()))
        ncont = sum(1 for r in model.recs for i, nm in enumerate(
            ([r.pos[0], r.pos[2]] if (version == "gfa1" and r.rt == "C") else
             ([r.pos[1][:-1], r.pos[2][:-1]] if (version == "gfa2" and r.rt == "E" and M.classify_edge(r)[0] == "C") else []))) if nm == sn)
        if len(s.containments) != ncont:
            raise Violation("containments", "len(containments) of %s: expected %d got %d" % (sn, ncont, len(s.containments)))
    # which segments can be reached from which over dovetails: asked for every segment, by name and by instance,
    # one question after the other in the same process (no answer may depend on what was asked before)
    adj = {r_.pos[0]: set() for r_ in model.segments()}
    for _r, a, b in dov:
        if a[0] in adj and b[0] in adj:
            adj[a[0]].add(b[0])
            adj[b[0]].add(a[0])
    for rnd in range(2):
        for sn in sorted(adj):
            want, todo = {sn}, [sn]
            while todo:
                for y in adj[todo.pop()]:
                    if y not in want:
                        want.add(y)
                        todo.append(y)
            try:
                got = gfa.segment_connected_component(sn if rnd == 0 else gfa.segment(sn))
            except Exception as e:
                raise Violation("component-raised", "segment_connected_component(%s) raised %s: %s\n%s" % (sn, type(e).__name__, str(e)[:200], model.text()), type(e).__name__)
            if sorted(x.name for x in got) != sorted(want):
                raise Violation("component", "segment_connected_component(%s) (question %d of the sweep) = %s, by the dovetail collections %s\n%s" % (
                    sn, rnd * len(adj) + sorted(adj).index(sn) + 1, sorted(x.name for x in got), sorted(want), model.text()))
    # per edge predicates and ends
    for r, a, b in dov:
        key = G.canon_rec(r)
        if key[0] == "L":
            key = (key[0], G.link_key(key), key[2])
        cands = [l for l in gfa.dovetails if O.line_key(l, version) == key]
        if not cands:
            raise Violation("gfa.dovetails", "dovetail %r not in gfa.dovetails" % r.text())
        l = cands[0]
        for se in (l.from_end, l.to_end):
            if gfa.segment(se.name) is not se.segment:
                raise Violation("answer-not-of-graph", "%r: from_end/to_end leads to a segment object %r which is not the segment of the graph" % (r.text(), se.name))
        ends = sorted([(l.from_end.name, l.from_end.end_type), (l.to_end.name, l.to_end.end_type)])
        if ends != sorted([a, b]):
            raise Violation("from_to_end", "%r: ends %s, expected %s" % (r.text(), ends, sorted([a, b])))
        if a != b:
            oe = l.other_end(gfapy.SegmentEnd(a[0], a[1]))
            if isinstance(oe.segment, gfapy.Line) and gfa.segment(oe.name) is not oe.segment:
                raise Violation("answer-not-of-graph", "%r: other_end(%s) leads to a segment object which is not the segment of the graph" % (r.text(), a))
            if (oe.name, oe.end_type) != b:
                raise Violation("other_end", "%r: other_end(%s) = %s, expected %s" % (r.text(), a, (oe.name, oe.end_type), b))
            oe = l.other_end(gfapy.SegmentEnd(b[0], b[1]))
            if (oe.name, oe.end_type) != a:
                raise Violation("other_end", "%r: other_end(%s) = %s, expected %s" % (r.text(), b, (oe.name, oe.end_type), a))
        ot = l.other(a[0])
        if (ot.name if not isinstance(ot, str) else ot) != b[0] and a[0] != b[0]:
            raise Violation("other", "%r: other(%s) = %s" % (r.text(), a[0], ot))
        if not l.is_dovetail() or l.is_containment() or l.is_internal():
            raise Violation("predicates", "%r: dovetail predicates wrong" % r.text())
    # the lists handed out by the Gfa belong to the caller (documented: "adding or removing elements to the list
    # does not add or remove lines from the Gfa instance"): emptying, extending or popping one changes no later answer
    for attr in ("dovetails", "containments", "edges", "segments", "gaps", "paths", "sets", "fragments"):
        try:
            first = list(getattr(gfa, attr))
            got = getattr(gfa, attr)
            got.extend(gfa.segments)
            if got:
                got.pop(0)
            got.clear()
            again = list(getattr(gfa, attr))
        except AttributeError:
            continue
        if len(first) != len(again) or any(x is not y for x, y in zip(first, again)):
            raise Violation("returned-list-aliased", "gfa.%s answers %d lines, and %d after the caller edited the list it was given\n%s" % (
                attr, len(first), len(again), model.text()), attr)
    c = model.counts()
    if len(gfa.dovetails) != c["dovetails"]:
        raise Violation("gfa.dovetails", "len(gfa.dovetails)=%d expected %d\n%s" % (len(gfa.dovetails), c["dovetails"], model.text()))
    if len(gfa.containments) != c["containments"]:
        raise Violation("gfa.containments", "len(gfa.containments)=%d expected %d\n%s" % (len(gfa.containments), c["containments"], model.text()))
    if version == "gfa2":
        for e in gfa.edges:
            rec = G.split_line(O.line_text(e), version)
            k = M.classify_edge(rec)[0]
            got = "L" if e.is_dovetail() else ("C" if e.is_containment() else ("I" if e.is_internal() else "?"))
            if got != k:
                raise Violation("classification", "%r classified %s, expected %s" % (rec.text(), got, k))


def load(lines, version, what=""):
    try:
        return gfapy.Gfa(list(lines), version=version, vlevel=1)
    except GfapyError as e:
        raise Violation("rejected", "valid document rejected: %s: %s\n%s" % (type(e).__name__, str(e)[:300], "\n".join(lines)), type(e).__name__)
    except Exception as e:
        raise Violation("foreign", "valid document crashed: %s: %s\n%s" % (type(e).__name__, str(e)[:300], "\n".join(lines)), type(e).__name__)


def full_check(doc, order=None):
    version = doc["version"]
    lines = gen.doc_lines(doc)
    if order is not None:
        lines = [lines[i] for i in order]
    model = M.ModelDoc.from_doc(doc)
    g = load(lines, version)
    probs = O.check_refs_against_model(g, model)
    if probs:
        raise Violation("collections", "%s\n-- document --\n%s" % ("\n".join(probs[:5]), "\n".join(lines)))
    try:
        check_derived(g, model)
    except Violation:
        raise
    except Exception as e:
        import traceback
        tb = traceback.extract_tb(e.__traceback__)
        where = next((f.name for f in reversed(tb) if "/gfapy/" in f.filename), "?")
        raise Violation("query-raised", "a neighbourhood query raised %s: %s\n-- document --\n%s" % (
            type(e).__name__, str(e)[:300], "\n".join(lines)), "%s/%s" % (type(e).__name__, where))
    return g, model


def prop_table(case):
    doc = {"version": case["version"], "lines": case["lines"]}
    full_check(doc, case.get("order"))
    return {"nt": True, "cell": case["cell"][0]}


def enum_table(shard, nshards):
    cases = []
    S = lambda n: ["S", [n, "10", "*"], []]
    for o1, o2, k1, k2 in itertools.product("+-", "+-", KIND_POS, KIND_POS):
        for self_edge in (False, True):
            s2 = "A" if self_edge else "B"
            e = ["E", ["e", "A" + o1, s2 + o2, KIND_POS[k1][0], KIND_POS[k1][1], KIND_POS[k2][0], KIND_POS[k2][1], "*"], []]
            segs = [S("A")] + ([] if self_edge else [S("B")])
            for first in (False, True):
                lines = ([e] + segs) if first else (segs + [e])
                cases.append({"version": "gfa2", "lines": lines, "cell": ["E", o1, o2, k1, k2, self_edge, first]})
    S1 = lambda n: ["S", [n, "*"], [["LN", "i", "10"]]]
    for o1, o2 in itertools.product("+-", "+-"):
        for shape in ("distinct", "self", "parallel"):
            s2 = "A" if shape == "self" else "B"
            segs1 = [S1("A")] + ([] if shape == "self" else [S1("B")])
            segs2 = [S("A")] + ([] if shape == "self" else [S("B")])
            l = [["L", ["A", o1, s2, o2, "3M"], []]]
            if shape == "parallel":
                l.append(["L", ["A", o1, s2, o2, "4M"], []])
            c = [["C", ["A", o1, s2, o2, "2", "3M"], []]] * (2 if shape == "parallel" else 1)
            g = [["G", ["*" if shape == "parallel" else "g", "A" + o1, s2 + o2, "5", "*"], []]] * (2 if shape == "parallel" else 1)
            for first in (False, True):
                for kind, recs, segs, v in (("L", l, segs1, "gfa1"), ("C", c, segs1, "gfa1"), ("G", g, segs2, "gfa2")):
                    lines = (recs + segs) if first else (segs + recs)
                    cases.append({"version": v, "lines": lines, "cell": [kind, o1, o2, shape, first]})
    for i, c in enumerate(cases):
        if i % nshards == shard:
            yield c


def prop_graph(case):
    doc = case["doc"]
    g, model = full_check(doc)
    nt = False
    for s in g.segments:
        for key, lst in s._refs.items():
            if len(lst) >= 2:
                nt = True
    return {"nt": nt, "version": doc["version"]}


@st.composite
def st_graph(draw):
    r = draw(st.randoms(use_true_random=False))
    v = gen.choice(r, ["gfa1", "gfa2"])
    o = {"both_forms": False, "headers": False, "comments": False, "nseg": (1, 4)}
    doc = gen.build_gfa1(r, o) if v == "gfa1" else gen.build_gfa2(r, o)
    return {"doc": {"version": v, "lines": doc["lines"]}}


def prop_hist(case):
    """Neighbourhoods after removals / renames / placeholder substitution (C11 part b)."""
    from .. import history as H
    version = case["version"]
    run = H.Runner(version, vlevel=1)
    nt = False
    for step, op in enumerate(case["ops"]):
        try:
            run.apply(op)
        except Exception as e:
            raise Violation("step", "legal step %d %r raised %s: %s\n%s" % (step, op, type(e).__name__, str(e)[:300], run.model.text()),
                            "%s/%s" % (op[0], type(e).__name__))
        probs = O.check_refs_against_model(run.gfa, run.model)
        if probs:
            raise Violation("collections", "after step %d %r:\n%s\nmodel:\n%s" % (step, op, "\n".join(probs[:5]), run.model.text()), op[0])
        if run.model.is_closed():
            try:
                check_derived(run.gfa, run.model)
            except Violation as v:
                raise Violation(v.sub, "after step %d %r: %s" % (step, op, v.msg), op[0])
            except Exception as e:
                raise Violation("query-raised", "after step %d %r a neighbourhood query raised %s: %s\n%s" % (
                    step, op, type(e).__name__, str(e)[:300], run.model.text()), type(e).__name__)
            if op[0] in ("rm", "rm_i", "disc", "rename"):
                nt = True
    return {"nt": nt, "version": version}


def st_hist(version):
    from .. import history as H

    @st.composite
    def s(draw):
        r = draw(st.randoms(use_true_random=False))
        return H.gen_history(r, version, {"p_rm": 0.3, "p_rename": 0.12, "load": 0.8, "steps": (3, 14), "p_readd": 0.1, "circular_first": 0.25})
    return s()


def parts(tier):
    n = 250 if tier == "quick" else 1200
    return [Part("table", prop_table, enum=enum_table, exhaustive=True, quick_shards=4,
                 note="complete enumeration of the E-line classification table and of L/C/G orientation pairs"),
            Part("graphs", prop_graph, strategy=st_graph(), n=n, quick_shards=2),
            Part("hist-gfa1", prop_hist, strategy=st_hist("gfa1"), n=200 if tier == "quick" else 800, quick_shards=2),
            Part("hist-gfa2", prop_hist, strategy=st_hist("gfa2"), n=200 if tier == "quick" else 800, quick_shards=2)]
