"""C17 GFA2 groups resolve to the paths and sets the specification defines."""
import itertools
from collections import Counter

from hypothesis import strategies as st

from .. import gen, grammar as G, model as M, observe as O
from ..env import gfapy, GfapyError
from ..runner import Part, Violation

ID = "C17"
ATHERIS = ['paths', 'multiline']  # parts also driven by libFuzzer in the thorough tier (vf/runner.py: all_parts)
RULE = ("part 'paths' (construction based): a GFA2 graph of dovetail E lines in both listing arrangements, a "
        "directed walk planted in it, and an O group derived from the walk by eliding edges (where exactly one "
        "fits), eliding segments next to kept edges, replacing sub-walks by nested O groups referenced + or - "
        "(depth <= 3); negative variants: an element dropped, two items swapped, a parallel edge added, random "
        "item lists. The model enumerates by brute force ALL alternating walks consistent with the item list "
        "under gfapy's direction-lenient edge rule and classifies: (i) planted, unique, no two edges between the "
        "same two segments => captured_path must EQUAL the walk; (ii) no consistent walk => must raise a "
        "gfapy.Error; (iii) otherwise => error or a member of the consistent set. captured_segments/edges are "
        "projections; o- is the inverted reversal of o+. part 'multiline': U/O groups defined over several lines "
        "in any arrival order: items concatenated in arrival order, tags united, one group, one back-reference "
        "per occurrence. part 'sets': induced sets vs the closure computed by the model. non-trivial = class (i) "
        "with walk >= 3 segments, >= 1 elided edge and a nested or reversed sub-path, or class (ii) one edit away "
        "from a class (i) case; multi-line/sets: >= 2 lines / nested set")
ASSUMPTIONS = [
    "edge direction in paths: neither the specification text nor the property fixes it; only cases on which the directed and gfapy's lenient reading agree are asserted (three-way classification above)",
    "sets do not list gaps when their induced set is computed (the statement's closure does not mention gaps)",
    "nested groups are defined (no dangling references) and nesting is a DAG",
]
INV = {"+": "-", "-": "+"}


def inv(os_):
    return os_[:-1] + INV[os_[-1]]


# ---------------------------------------------------------------- model of path resolution

class PGraph:
    def __init__(self, edges):
        # edges: name -> (sid1, sid2) oriented-segment strings
        self.edges = dict(edges)
        self.signed = []
        for e, (a, b) in self.edges.items():
            self.signed.append((e + "+", a, b))
            self.signed.append((e + "-", inv(b), inv(a)))

    def joining(self, x, y):
        """Signed edges joining oriented segments x, y under the lenient rule."""
        out = []
        for e, (a, b) in self.edges.items():
            if {a, b} == {x, y} and (a, b) in ((x, y), (y, x)):
                out.append(e + "+")
            if (inv(a), inv(b)) in ((x, y), (y, x)):
                out.append(e + "-")
        return sorted(set(out))

    def ends_of(self, signed_edge):
        """The two oriented segments (unordered pair as list) a signed edge joins."""
        e, s = signed_edge[:-1], signed_edge[-1]
        a, b = self.edges[e]
        return [a, b] if s == "+" else [inv(a), inv(b)]


class Unresolved(Exception):
    def __init__(self, kind):
        self.kind = kind  # "none" | "ambiguous" | "deep"


def flatten(items, groups, pg=None, segnames=None, depth=0, marks=None):
    """Inline nested ordered groups by their *resolved path* (the statement says nested
    paths are inlined): a nested group must itself resolve to exactly one walk.
    With marks (a dict) the positions of *supplied* boundary segments are recorded: marks["tail"] holds the
    indices of last elements of inlined paths that were not items of the nested group but supplied for its
    trailing edge (for a group referenced with '-': for its leading edge), marks["head"] likewise for first
    elements; marks["first"] / marks["last"] tell whether the whole list starts / ends with such an element or
    with an edge item."""
    out = []
    tail, head = set(), set()
    for it in items:
        n, o = it[:-1], it[-1]
        if n in groups:
            if depth > 6:
                raise Unresolved("deep")
            sub_marks = {} if marks is not None else None
            sub_flat = flatten(groups[n], groups, pg, segnames, depth + 1, sub_marks)
            ws = consistent_walks(pg, sub_flat, segnames, coincide=sub_marks["tail"] if sub_marks else None)
            if not ws:
                raise Unresolved("none")
            if len(ws) > 1:
                raise Unresolved("ambiguous")
            sub = ws[0]
            first_sup = last_sup = False
            if sub_marks is not None and sub_flat:
                first_sup, last_sup = sub_marks["first"], sub_marks["last"]
            if o == "+":
                if first_sup:
                    head.add(len(out))
                out.extend(sub)
                if last_sup:
                    tail.add(len(out) - 1)
            else:
                if last_sup:
                    head.add(len(out))
                out.extend(inv(x) for x in reversed(sub))
                if first_sup:
                    tail.add(len(out) - 1)
        else:
            out.append(it)
    if marks is not None:
        marks["tail"], marks["head"] = tail, head
        is_edge = lambda x: pg is not None and x[:-1] in pg.edges
        marks["first"] = bool(out) and (is_edge(out[0]) or 0 in head)
        marks["last"] = bool(out) and (is_edge(out[-1]) or (len(out) - 1) in tail)
    return out


def consistent_walks(pg, flat, segnames, limit=60, lenient=False, coincide=None):
    """All alternating walks [seg, edge, seg, ...] consistent with the flat item list:
    every item is an element of the walk, in order; between two items at most one
    element is supplied (the edge joining two segments, the segment between two edges,
    the segment before a leading / after a trailing edge). With lenient=True two equal
    consecutive segment items may also denote the same element of the walk (the
    boundary of an inlined nested path); with coincide (a set of indices of flat) only a segment at one of
    those indices - the segment supplied for the trailing edge of an inlined path - may coincide with an equal
    segment item that follows it."""
    res = []

    def joins(se, x, y):
        a, b = pg.ends_of(se)
        return (a, b) == (x, y) or (a, b) == (y, x)

    def finish(walk):
        if walk and walk[-1][:-1] in pg.edges and (len(walk) % 2 == 0):
            a, b = pg.ends_of(walk[-1])
            prev = walk[-2]
            for x in ([b] if prev == a else []) + ([a] if prev == b else []):
                if x not in [w[-1] for w in []]:
                    yield walk + [x]
        else:
            yield list(walk)

    def rec(i, walk):
        if len(res) >= limit:
            return
        if i == len(flat):
            for w in finish(walk):
                if w not in res:
                    res.append(w)
            return
        it = flat[i]
        is_seg = it[:-1] in segnames
        ends_with_seg = len(walk) % 2 == 1
        if is_seg:
            if not walk:
                rec(i + 1, [it])
            elif ends_with_seg:
                if walk[-1] == it and (lenient or (coincide is not None and (i - 1) in coincide and flat[i - 1] == it)):
                    rec(i + 1, walk)
                for se in pg.joining(walk[-1], it):
                    rec(i + 1, walk + [se, it])
            else:
                if joins(walk[-1], walk[-2], it):
                    rec(i + 1, walk + [it])
        else:
            if it[:-1] not in pg.edges:
                return
            a, b = pg.ends_of(it)
            if not walk:
                for x in sorted(set([a, b])):
                    rec(i + 1, [x, it])
            elif ends_with_seg:
                if walk[-1] in (a, b):
                    rec(i + 1, walk + [it])
            else:
                pa, pb = pg.ends_of(walk[-1])
                prev = walk[-2]
                mids = set()
                if prev == pa:
                    mids.add(pb)
                if prev == pb:
                    mids.add(pa)
                for x in sorted(mids):
                    if x in (a, b):
                        rec(i + 1, walk + [x, it])
    rec(0, [])
    return res


# ---------------------------------------------------------------- construction

def edge_line(name, x, y, slen, flip, kind="dovetail"):
    """E line joining x -> y (oriented segments); flip = list it as y^-1 -> x^-1.  The intervals
    make it a dovetail, a containment or an internal overlap: a walk may use any of them (the
    specification speaks of edges; gfapy looks at sid1/sid2 only)."""
    if flip:
        x, y = inv(y), inv(x)
    (a, oa), (b, ob) = (x[:-1], x[-1]), (y[:-1], y[-1])
    la, lb = slen[a], slen[b]
    i1 = ("%d" % (la - 2), "%d$" % la) if oa == "+" else ("0", "2")
    i2 = ("0", "2") if ob == "+" else ("%d" % (lb - 2), "%d$" % lb)
    if kind == "containment":
        i2 = ("0", "%d$" % lb)
    elif kind == "internal":
        i1, i2 = ("1", "3"), ("1", "3")
    return ["E", [name, x, y, i1[0], i1[1], i2[0], i2[1], "2M"], []], (x, y)


def build_paths_case(r):
    n = r.randint(2, 5)
    segs = ["s%d" % i for i in range(n)]
    slen = {s: r.randint(5, 9) for s in segs}
    lines = [["S", [s, str(slen[s]), "*"], []] for s in segs]
    edges = {}
    ne = r.randint(2, 7)
    for i in range(ne):
        x = gen.choice(r, segs) + gen.choice(r, "+-")
        y = gen.choice(r, segs) + gen.choice(r, "+-")
        name = "e%d" % i
        l, sid = edge_line(name, x, y, slen, gen.chance(r, 0.5), gen.choice(r, ["dovetail", "dovetail", "dovetail", "containment", "internal"]))
        edges[name] = sid
        lines.append(l)
    pg = PGraph(edges)
    # directed walk: step from w to a neighbour through a directed (signed) edge
    directed = {}
    for se, a, b in pg.signed:
        directed.setdefault(a, []).append((se, b))
    start = gen.choice(r, [a for a in directed] or [segs[0] + "+"])
    walk = [start]
    for _ in range(r.randint(0, 5)):
        opts = directed.get(walk[-1], [])
        if not opts:
            break
        se, b = gen.choice(r, opts)
        walk += [se, b]
    return segs, slen, lines, edges, pg, walk


def derive_items(r, pg, walk, segs, allow_nested, groups, lines, depth=0):
    """Item list for the walk, with elisions and nested groups."""
    items = list(walk)
    # nested group over a sub-walk
    if allow_nested and len(walk) >= 3 and depth < 2 and gen.chance(r, 0.5):
        nseg = (len(walk) + 1) // 2
        i = r.randrange(nseg)
        j = r.randint(i, nseg - 1)
        if j > i or gen.chance(r, 0.3):
            sub = walk[2 * i:2 * j + 1]
            name = "o%d" % (len(groups) + 1)
            if gen.chance(r, 0.5):
                sub_items, _ = derive_items(r, pg, sub, segs, True, groups, lines, depth + 1)
                ref = name + "+"
            else:
                rsub = [inv(x) for x in reversed(sub)]
                sub_items, _ = derive_items(r, pg, rsub, segs, True, groups, lines, depth + 1)
                ref = name + "-"
            if name not in groups:
                groups[name] = sub_items
                lines.append(["O", [name, " ".join(sub_items)], []])
                rest = walk[2 * j + 1:]
                tail_item = sub_items[-1] if ref.endswith("+") else sub_items[0]
                if tail_item[:-1] in pg.edges and gen.chance(r, 0.6):
                    # the nested path ends with an edge (its last segment is elided): the list goes on with the
                    # segment that edge leads to
                    rest = walk[2 * j:]
                items = walk[:2 * i] + [ref] + rest
    # elisions on the primitive parts
    elided_edge = False
    out = list(items)
    # elide edges between two kept primitive segments when exactly one signed edge joins them
    k = 1
    while k < len(out) - 1:
        it = out[k]
        if it[:-1] in pg.edges and out[k - 1][:-1] in segs and out[k + 1][:-1] in segs:
            if pg.joining(out[k - 1], out[k + 1]) == [it] and gen.chance(r, 0.5):
                out.pop(k)
                elided_edge = True
                continue
        k += 1
    # elide segments adjacent to a kept edge
    k = 0
    while k < len(out) and len(out) > 1:
        it = out[k]
        if it[:-1] in segs:
            left_e = k > 0 and out[k - 1][:-1] in pg.edges
            right_e = k < len(out) - 1 and out[k + 1][:-1] in pg.edges
            left_ok = k == 0 or left_e
            right_ok = k == len(out) - 1 or right_e
            if (left_e or right_e) and left_ok and right_ok and gen.chance(r, 0.5):
                out.pop(k)
                continue
        k += 1
    return out, elided_edge


def load(lines, what="graph"):
    text = [G.Rec.from_plain(l, "gfa2").text() for l in lines]
    try:
        return gfapy.Gfa(text, version="gfa2", vlevel=1), text
    except Exception as e:
        raise Violation("load", "%s not loaded: %s: %s\n%s" % (what, type(e).__name__, str(e)[:300], "\n".join(text)), type(e).__name__)


def prop_twin(case):
    """Two identical unnamed E lines are two edges: a path that leaves the edge between their two segments out is
    ambiguous (reported as an error), and the set of all segments induces every E line, both twins included."""
    lines, pid = case["lines"], case["path"]
    g, text = load(lines)
    ctx = "path %s\n%s" % (pid, "\n".join(text))
    try:
        cp = [str(x) for x in g.line(pid).captured_path]
    except GfapyError:
        cp = None
    except Exception as e:
        raise Violation("foreign", "%s\ncaptured_path raised %s: %s" % (ctx, type(e).__name__, str(e)[:300]), type(e).__name__)
    if cp is not None:
        raise Violation("ambiguity-accepted", "%s\ntwo identical edges join %s, the items leave the edge between them out, but captured_path = %s" % (ctx, case["twin_of"], cp))
    try:
        ie = g.line("uall").induced_edges_set
        iseg = g.line("uall").induced_segments_set
    except Exception as e:
        raise Violation("induced-raised", "%s\ninduced sets of the set of all segments raised %s: %s" % (ctx, type(e).__name__, str(e)[:200]), type(e).__name__)
    n_e = sum(1 for l in lines if l[0] == "E")
    if len(ie) != n_e or len(set(id(x) for x in ie)) != n_e or len(iseg) != len(case["segs"]):
        raise Violation("induced-twin", "%s\nthe set of all %d segments induces %d edges (%d distinct objects), the document has %d E lines" % (
            ctx, len(case["segs"]), len(ie), len(set(id(x) for x in ie)), n_e))
    return {"nt": True, "mode": "twin"}


def prop_paths(case):
    if case.get("mode") == "twin":
        return prop_twin(case)
    lines, pid, segs = case["lines"], case["path"], case["segs"]
    edges = {l[1][0]: (l[1][1], l[1][2]) for l in lines if l[0] == "E"}
    groups = {l[1][0]: l[1][1].split(" ") for l in lines if l[0] == "O"}
    pg = PGraph(edges)
    g, text = load(lines)
    ctx = "path %s\n%s" % (pid, "\n".join(text))
    pairs = Counter(frozenset([a[:-1], b[:-1]]) for a, b in edges.values())
    multi = any(v > 1 for v in pairs.values())
    planted = case.get("planted")
    flat = None
    tail_case = False
    try:
        marks = {}
        flat = flatten(groups[pid], groups, pg, set(segs), marks=marks)
        strict = consistent_walks(pg, flat, set(segs))
        walks = consistent_walks(pg, flat, set(segs), lenient=True)
        # a segment item right after a nested path which ends with an edge is the segment that edge leads to
        # (it is not visited twice): the reading the library itself implements for nested paths
        tailw = consistent_walks(pg, flat, set(segs), coincide=marks["tail"])
        self_edges = any(a[:-1] == b[:-1] for a, b in edges.values())
        if planted and strict == [planted] and walks == [planted] and not multi:
            klass = "i"
        elif planted and tailw == [planted] and walks == [planted] and not multi and not self_edges:
            klass = "i"
            tail_case = True
        elif not walks:
            klass = "ii"
        else:
            klass = "iii"
    except Unresolved as u:
        walks = None
        klass = "ii" if u.kind == "none" else "iii"
    line = g.line(pid)
    try:
        cp = [str(x) for x in line.captured_path]
        err = None
    except GfapyError as e:
        cp, err = None, e
    except Exception as e:
        raise Violation("foreign", "%s\ncaptured_path raised %s: %s" % (ctx, type(e).__name__, str(e)[:300]), type(e).__name__)
    if klass == "i":
        if err is not None:
            raise Violation("valid-path-refused", "%s\nthe items denote the unique walk %s but captured_path raised %s: %s" % (
                ctx, planted, type(err).__name__, str(err)[:300].replace("\n", " | ")), type(err).__name__)
        if cp != planted:
            raise Violation("wrong-path", "%s\ncaptured_path = %s, expected the unique walk %s" % (ctx, cp, planted))
    elif klass == "ii":
        if err is None:
            raise Violation("invalid-path-accepted", "%s\nno alternating walk is consistent with the items %s (flattened %s) but captured_path = %s" % (
                ctx, groups[pid], flat, cp))
    else:
        if err is None and walks is not None and cp not in walks:
            raise Violation("inconsistent-path", "%s\ncaptured_path = %s is not among the walks consistent with the items: %s" % (ctx, cp, walks[:5]))
    if err is None:
        try:
            cs = [str(x) for x in line.captured_segments]
            ce = [str(x) for x in line.captured_edges]
        except Exception as e:
            raise Violation("projection-raised", "%s\ncaptured_segments/edges raised %s" % (ctx, type(e).__name__))
        if cs != cp[0::2] or ce != cp[1::2]:
            raise Violation("projection", "%s\ncaptured_segments %s / captured_edges %s are not the projections of %s" % (ctx, cs, ce, cp))
        # o- is the inverted reversal
        if case.get("rev"):
            try:
                rp = [str(x) for x in g.line(case["rev"]).captured_path]
            except GfapyError as e:
                if klass == "i":
                    raise Violation("reverse-refused", "%s\nO %s = '%s-' raised %s" % (ctx, case["rev"], pid, type(e).__name__))
                rp = None
            if rp is not None and klass == "i" and rp != [inv(x) for x in reversed(cp)]:
                raise Violation("reverse", "%s\ncaptured path of '%s-' is %s, expected the inverted reversal of %s" % (ctx, pid, rp, cp))
    nt = False
    if klass == "i":
        nt = len(planted) >= 5 and (case.get("elided_edge", False) or len(groups) > 1 or bool(case.get("rev")))
    elif klass == "ii":
        nt = bool(case.get("from_valid"))
    return {"nt": nt, "class": klass, "raised": err is not None, "boundary_segment_repeated": tail_case}


def build_tail_case(r):
    """A graph without self-edges and parallel edges, a directed walk over it, and an item list in which a
    nested path that ends with an edge (referenced '+') or begins with one (referenced '-') is followed by the
    segment that edge leads to."""
    for _ in range(40):
        segs, slen, lines, edges, pg, walk = build_paths_case(r)
        pairs = Counter(frozenset([a[:-1], b[:-1]]) for a, b in edges.values())
        if any(v > 1 for v in pairs.values()) or any(a[:-1] == b[:-1] for a, b in edges.values()) or len(walk) < 3:
            continue
        nseg = (len(walk) + 1) // 2
        i = r.randrange(nseg - 1)
        j = r.randint(i + 1, nseg - 1)
        sub = walk[2 * i:2 * j + 1]
        if gen.chance(r, 0.5):
            sub_items, ref = sub[:-1], "o1+"
        else:
            rsub = [inv(x) for x in reversed(sub)]
            sub_items, ref = rsub[1:], "o1-"
        # further elisions inside the nested path: a segment between two kept edges
        k = 1
        while k < len(sub_items) - 1:
            if sub_items[k][:-1] in segs and sub_items[k - 1][:-1] in pg.edges and sub_items[k + 1][:-1] in pg.edges and gen.chance(r, 0.4):
                sub_items.pop(k)
                continue
            k += 1
        lines.append(["O", ["o1", " ".join(sub_items)], []])
        items = walk[:2 * i] + [ref] + walk[2 * j:]
        return segs, slen, lines, edges, pg, walk, items
    return None


@st.composite
def st_paths(draw):
    r = draw(st.randoms(use_true_random=False))
    mode = gen.choice(r, ["planted", "planted", "planted", "edges", "drop", "swap", "parallel", "random", "tail", "tail", "twin"])
    if mode == "twin":
        segs, slen, lines, edges, pg, walk = build_paths_case(r)
        once = [k for k in range(1, len(walk), 2) if sum(1 for x in walk if x[:-1] == walk[k][:-1]) == 1]
        if once:
            k = gen.choice(r, once)
            name = walk[k][:-1]
            for l in lines:
                if l[0] == "E" and l[1][0] == name:
                    l[1][0] = "*"
                    twin = ["E", list(l[1]), [list(t) for t in l[2]]]
            lines.append(twin)
            lines.append(["O", ["pp", " ".join(walk[0::2])], []])
            lines.append(["U", ["uall", " ".join(segs)], []])
            order = list(range(len(lines)))
            if gen.chance(r, 0.4):
                r.shuffle(order)
            return {"lines": [lines[i] for i in order], "path": "pp", "segs": segs, "planted": None, "rev": None,
                    "elided_edge": True, "from_valid": True, "mode": "twin", "twin_of": [walk[k - 1], walk[k + 1]]}
        mode = "planted"
    tail = build_tail_case(r) if mode == "tail" else None
    if tail is not None:
        segs, slen, lines, edges, pg, walk, items = tail
        elided = True
    else:
        segs, slen, lines, edges, pg, walk = build_paths_case(r)
    groups = {}
    if tail is None:
        items, elided = derive_items(r, pg, walk, segs, True, groups, lines)
    if mode == "edges" and len(walk) >= 5:
        # the path given by its edges only (every segment is supplied)
        items, elided = [x for i, x in enumerate(walk) if i % 2 == 1], True
    planted = list(walk)
    from_valid = False
    if mode == "drop" and len(items) >= 2:
        items.pop(r.randrange(len(items)))
        planted = None
        from_valid = True
    elif mode == "swap" and len(items) >= 2:
        i = r.randrange(len(items) - 1)
        items[i], items[i + 1] = items[i + 1], items[i]
        planted = None
        from_valid = True
    elif mode == "parallel" and len(walk) >= 3:
        k = 1 + 2 * r.randrange(len(walk) // 2)
        x, y = walk[k - 1], walk[k + 1]
        name = "px"
        l, sid = edge_line(name, x, y, slen, gen.chance(r, 0.5))
        lines.append(l)
        planted = None
        from_valid = True
    elif mode == "random":
        pool = [s + o for s in segs for o in "+-"] + [e + o for e in edges for o in "+-"]
        items = [gen.choice(r, pool) for _ in range(r.randint(1, 5))]
        planted = None
    pid = "pp"
    lines.append(["O", [pid, " ".join(items)], []])
    rev = None
    if gen.chance(r, 0.4):
        rev = "rr"
        lines.append(["O", [rev, pid + "-"], []])
    order = list(range(len(lines)))
    if gen.chance(r, 0.4):
        r.shuffle(order)
    return {"lines": [lines[i] for i in order], "path": pid, "segs": segs, "planted": planted, "rev": rev,
            "elided_edge": elided, "from_valid": from_valid, "mode": mode}


# ---------------------------------------------------------------- multi-line groups

def prop_multiline(case):
    lines, gid, kind = case["lines"], case["group"], case["kind"]
    if case.get("conflict"):
        # two lines of the group give the same tag different values: there is no union of the two
        # definitions, the document is refused (whatever the values, whatever the order)
        text = [G.Rec.from_plain(l, "gfa2").text() for l in lines]
        try:
            g = gfapy.Gfa(text, version="gfa2", vlevel=1)
        except GfapyError:
            return {"nt": True, "conflict": True, "kind": kind}
        except Exception as e:
            raise Violation("foreign", "%s: %s\n%s" % (type(e).__name__, str(e)[:200], "\n".join(text)), type(e).__name__)
        grp = [str(x) for x in (g.sets if kind == "U" else g.paths) if str(x.name) == gid]
        raise Violation("contradiction-accepted", "two lines of group %s define tag %s differently and the document is accepted; the group is now %s\n%s" % (
            gid, case["conflict"], grp, "\n".join(text)), "falsy" if case.get("falsy") else "-")
    g, text = load(lines)
    ctx = "%s group %s\n%s" % (kind, gid, "\n".join(text))
    parts = [l for l in lines if l[0] == kind and l[1][0] == gid]
    want_items = [x for l in parts for x in l[1][1].split(" ")]
    want_tags = {}
    for l in parts:
        for n, t, v in l[2]:
            want_tags[n] = (t, G.canon_tag_value(t, v))
    grp = [x for x in (g.sets if kind == "U" else g.paths) if str(x.name) == gid]
    if len(grp) != 1:
        raise Violation("group-count", "%s\n%d groups registered under the identifier" % (ctx, len(grp)))
    line = grp[0]
    if g.line(gid) is not line:
        raise Violation("group-lookup", "%s\nline(%r) is not the merged group" % (ctx, gid))
    rec = G.split_line(O.line_text(line), "gfa2")
    got_items = rec.pos[1].split(" ")
    if got_items != want_items:
        raise Violation("items", "%s\nitems %s, expected the concatenation in arrival order %s" % (ctx, got_items, want_items))
    got_tags = {n: (t, G.canon_tag_value(t, v)) for n, t, v in rec.tags}
    if got_tags != want_tags:
        raise Violation("tags", "%s\ntags %s, expected the union %s" % (ctx, got_tags, want_tags))
    key = "sets" if kind == "U" else "paths"
    occ = Counter(x[:-1] if kind == "O" else x for x in want_items)
    for name, n in occ.items():
        tgt = g.line(name)
        if tgt is None:
            raise Violation("item-missing", "%s\nitem %s not found" % (ctx, name))
        m = sum(1 for x in tgt._refs.get(key, []) if x is line)
        if m != n:
            raise Violation("backrefs", "%s\nitem %s back-references the group %d time(s), listed %d time(s)" % (ctx, name, m, n))
        stale = [x for x in tgt._refs.get(key, []) if x is not line and str(x.name) == gid]
        if stale:
            raise Violation("backrefs", "%s\nitem %s still references a superseded definition line" % (ctx, name))
    probs = O.invariants(g)
    if probs:
        raise Violation("invariant", "%s\n%s" % (ctx, probs[:3]))
    if sum(1 for l in g.lines if l.record_type == kind and str(l.name) == gid) != 1:
        raise Violation("group-count", "%s\nthe group is written more than once" % ctx)
    return {"nt": len(parts) >= 2, "kind": kind, "n_lines": len(parts)}


@st.composite
def st_multiline(draw):
    r = draw(st.randoms(use_true_random=False))
    n = r.randint(2, 4)
    segs = ["s%d" % i for i in range(n)]
    lines = [["S", [s, "8", "*"], []] for s in segs]
    enames = []
    for i in range(r.randint(1, 3)):
        a, b = gen.choice(r, segs), gen.choice(r, segs)
        lines.append(["E", ["e%d" % i, a + "+", b + gen.choice(r, "+-"), "0", "2", "0", "2", "*"], []])
        enames.append("e%d" % i)
    kind = gen.choice(r, "UO")
    gid = "grp"
    pool = segs + enames
    tagpool = [["xx", "i", gen.choice(r, ["5", "0", "-1"])], ["ab", "Z", "hello"], ["X1", "A", gen.choice(r, ["q", "0"])],
               ["zz", "J", gen.choice(r, ["[1]", "[]", "{}"])], ["cn", "f", gen.choice(r, ["1.5", "0.0", "0"])], ["bq", "B", "c,0"]]
    r.shuffle(tagpool)
    k = r.randint(1, 4)
    for i in range(k):
        its = [gen.choice(r, pool) + (gen.choice(r, "+-") if kind == "O" else "") for _ in range(r.randint(1, 3))]
        tags = []
        if tagpool and gen.chance(r, 0.5):
            tags.append(tagpool.pop())
        if i > 0 and gen.chance(r, 0.3):
            # repeat an earlier tag with the same value (allowed)
            prev = [t for l in lines if l[0] == kind for t in l[2]]
            if prev:
                tags.append(list(prev[0]))
        seen = set()
        tags = [t for t in tags if not (t[0] in seen or seen.add(t[0]))]
        lines.append([kind, [gid, " ".join(its)], tags])
    # arrival order: group lines keep their relative order (it defines the item order), the rest is shuffled around
    grp = [l for l in lines if l[0] == kind]
    rest = [l for l in lines if l[0] != kind]
    r.shuffle(rest)
    out = list(rest)
    for gl in grp:
        out.insert(r.randint(0, len(out)), None)
    it = iter(grp)
    out = [next(it) if x is None else x for x in out]
    conflict = falsy = None
    grp_lines = [l for l in out if l[0] == kind]
    tagged = [(i, t) for i, l in enumerate(grp_lines) for t in l[2]]
    if len(grp_lines) >= 2 and tagged and gen.chance(r, 0.25):
        # another line of the group defines one of the tags differently
        i, t = gen.choice(r, tagged)
        other = gen.choice(r, [j for j in range(len(grp_lines)) if j != i])
        alt = {"i": ["0", "7", "5"], "Z": ["other", "0"], "A": ["0", "z"], "J": ["[]", "{}", "[2]", "0"], "f": ["0.0", "2.5", "0"], "B": ["c,1", "c,0,0"]}[t[1]]
        alt = [v for v in alt if G.canon_tag_value(t[1], v) != G.canon_tag_value(t[1], t[2]) and G.accepts(t[1], v)]
        if alt and not any(x[0] == t[0] for x in grp_lines[other][2]):
            v = gen.choice(r, alt)
            grp_lines[other][2].append([t[0], t[1], v])
            conflict = t[0]
            falsy = any(x in ("0", "0.0", "[]", "{}") for x in (v, t[2]))
    return {"lines": out, "group": gid, "kind": kind, "conflict": conflict, "falsy": falsy}


# ---------------------------------------------------------------- induced sets

def prop_sets(case):
    lines, uid = case["lines"], case["set"]
    g, text = load(lines)
    ctx = "set %s\n%s" % (uid, "\n".join(text))
    recs = {l[1][0]: l for l in lines if l[0] in "SEOU" and l[1][0] != "*"}
    segs = set(l[1][0] for l in lines if l[0] == "S")
    edges = {l[1][0]: (l[1][1][:-1], l[1][2][:-1]) for l in lines if l[0] == "E"}
    all_edges = [(l[1][0], l[1][1][:-1], l[1][2][:-1]) for l in lines if l[0] == "E"]

    def closure(name, seen=()):
        l = recs[name]
        out = set()
        for it in l[1][1].split(" "):
            n = it[:-1] if l[0] == "O" else it
            if n in segs:
                out.add(n)
            elif n in edges:
                out.update(edges[n])
            elif n in recs and recs[n][0] == "O":
                try:
                    cp = g.line(n).captured_segments
                    out.update(x.name for x in cp)
                except GfapyError:
                    return None
            elif n in recs and recs[n][0] == "U":
                sub = closure(n)
                if sub is None:
                    return None
                out.update(sub)
        return out

    labels = _eval_set(g, uid, closure, all_edges, recs, ctx)
    cont = case.get("cont")
    if cont and cont[0] in recs:
        # a further line of a group somewhere below the queried set arrives AFTER the first
        # answer was given: the second answer is that of the enlarged group
        kind = recs[cont[0]][0]
        try:
            g.add_line("%s\t%s\t%s" % (kind, cont[0], cont[1]))
        except GfapyError as e:
            raise Violation("continuation-refused", "%s\nfurther line of %s refused: %s: %s" % (ctx, cont[0], type(e).__name__, str(e)[:200]), type(e).__name__)
        recs[cont[0]] = [kind, [cont[0], recs[cont[0]][1][1] + " " + cont[1]], []]
        ctx2 = ctx + "\n+ after the first query: %s\t%s\t%s" % (kind, cont[0], cont[1])
        l2 = _eval_set(g, uid, closure, all_edges, recs, ctx2)
        labels["continued"] = True
        labels["nt"] = labels["nt"] or l2["nt"]
    return labels


def _eval_set(g, uid, closure, all_edges, recs, ctx):
    want = closure(uid)
    line = g.line(uid)
    try:
        iss = [x.name for x in line.induced_segments_set]
        ies = line.induced_edges_set
        full = line.induced_set
    except GfapyError as e:
        if want is not None:
            raise Violation("set-refused", "%s\ninduced set raised %s: %s" % (ctx, type(e).__name__, str(e)[:300]), type(e).__name__)
        return {"nt": False, "refused": True}
    except Exception as e:
        raise Violation("foreign", "%s\ninduced set raised %s: %s" % (ctx, type(e).__name__, str(e)[:300]), type(e).__name__)
    if want is None:
        return {"nt": False}
    if len(iss) != len(set(iss)) or set(iss) != want:
        raise Violation("induced-segments", "%s\ninduced segments %s, expected %s" % (ctx, sorted(iss), sorted(want)))
    want_e = Counter()
    for name, a, b in all_edges:
        if a in want and b in want:
            want_e[(name, a, b)] += 1
    got_e = Counter()
    for e in ies:
        got_e[(str(e.name) if not gfapy.is_placeholder(e.name) else "*", e.sid1.name, e.sid2.name)] += 1
    if got_e != want_e:
        raise Violation("induced-edges", "%s\ninduced edges %s, expected %s" % (ctx, sorted(got_e.elements()), sorted(want_e.elements())))
    if len(full) != len(iss) + len(ies):
        raise Violation("induced-set", "%s\ninduced_set is not segments + edges" % ctx)
    nested = any(x in recs and recs[x][0] in "UO" for x in recs[uid][1][1].split(" "))
    return {"nt": nested or len(want) >= 3, "nested": nested}


@st.composite
def st_sets(draw):
    r = draw(st.randoms(use_true_random=False))
    n = r.randint(2, 6)
    segs = ["s%d" % i for i in range(n)]
    lines = [["S", [s, "8", "*"], []] for s in segs]
    enames = []
    for i in range(r.randint(1, 6)):
        a, b = gen.choice(r, segs), gen.choice(r, segs)
        oa, ob = gen.choice(r, "+-"), gen.choice(r, "+-")
        kind = r.randrange(3)
        iv = [("6", "8$", "0", "2"), ("0", "8$", "1", "3"), ("2", "4", "3", "5")][kind]
        if kind == 0 and oa != ob:
            iv = ("0", "2", "0", "2")
        name = "e%d" % i if gen.chance(r, 0.8) else "*"
        lines.append(["E", [name, a + oa, b + ob, iv[0], iv[1], iv[2], iv[3], "*"], []])
        if name != "*":
            enames.append(name)
    groups = []
    # an ordered group: a single segment or an explicit s e s walk
    for i in range(r.randint(0, 2)):
        if enames and gen.chance(r, 0.6):
            e = gen.choice(r, enames)
            el = next(l for l in lines if l[0] == "E" and l[1][0] == e)
            if M.classify_edge(G.Rec.from_plain(el, "gfa2"))[0] == "L":
                items = [el[1][1], e + "+", el[1][2]]
            else:
                items = [gen.choice(r, segs) + "+"]
        else:
            items = [gen.choice(r, segs) + gen.choice(r, "+-")]
        lines.append(["O", ["o%d" % i, " ".join(items)], []])
        groups.append("o%d" % i)
    usets = []
    chain = gen.chance(r, 0.5)  # every set contains the previous one: nesting as deep as there are sets
    for i in range(r.randint(1, 3) if not chain else r.randint(2, 4)):
        pool = segs + enames + groups + usets
        items = [gen.choice(r, pool) for _ in range(r.randint(1, 4 if not chain else 2))]
        if chain and usets and usets[-1] not in items:
            items.append(usets[-1])
        lines.append(["U", ["u%d" % i, " ".join(items)], []])
        usets.append("u%d" % i)
    order = list(range(len(lines)))
    if gen.chance(r, 0.5):
        r.shuffle(order)
    cont = None
    lower = usets[:-1] + groups
    if lower and gen.chance(r, 0.5):
        tgt = gen.choice(r, lower)
        if chain and gen.chance(r, 0.6):
            tgt = usets[0]  # the innermost set of the chain
        if tgt in groups:
            cont = [tgt, gen.choice(r, segs) + gen.choice(r, "+-")]
        else:
            cont = [tgt, " ".join(gen.choice(r, segs + enames) for _ in range(r.randint(1, 2)))]
    return {"lines": [lines[i] for i in order], "set": usets[-1], "cont": cont}


def parts(tier):
    q = tier == "quick"
    return [Part("paths", prop_paths, strategy=st_paths(), n=1500 if q else 6000, quick_shards=2),
            Part("multiline", prop_multiline, strategy=st_multiline(), n=250 if q else 1500),
            Part("sets", prop_sets, strategy=st_sets(), n=300 if q else 1500)]
