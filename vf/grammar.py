"""Independent recognisers / canonicalisers for GFA1 and GFA2 (no gfapy import).

Transcribed from the GFA1 / GFA2 specifications and the SAM optional-field syntax
they refer to.  ``re.fullmatch`` is used everywhere, so a trailing newline is never
silently accepted.  Nothing here shares code with gfapy/field.
"""
import json
import math
import re

PRINT = r"[!-~]"
RE = {
    # --- tag datatypes
    "A": re.compile(r"[!-~]"),
    "i": re.compile(r"[-+]?[0-9]+"),
    "f": re.compile(r"[-+]?[0-9]*\.?[0-9]+([eE][-+]?[0-9]+)?"),
    "Z": re.compile(r"[ !-~]+"),
    "J": re.compile(r"[ !-~]+"),
    "H": re.compile(r"([0-9A-F][0-9A-F])+"),
    "B": re.compile(r"[cCsSiI](,[-+]?[0-9]+)+|f(,[-+]?[0-9]*\.?[0-9]+([eE][-+]?[0-9]+)?)+"),
    # --- GFA1 positional
    "segment_name_gfa1": re.compile(r"[!-)+-<>-~][!-~]*"),
    "path_name_gfa1": re.compile(r"[!-)+-<>-~][!-~]*"),
    "sequence_gfa1": re.compile(r"\*|[A-Za-z=.]+"),
    "orientation": re.compile(r"[+-]"),
    "alignment_gfa1": re.compile(r"\*|([0-9]+[MIDNSHPX=])+"),
    "position_gfa1": re.compile(r"[0-9]+"),
    "alignment_list_gfa1": re.compile(r"(\*|([0-9]+[MIDNSHPX=])+)(,(\*|([0-9]+[MIDNSHPX=])+))*"),
    "oriented_identifier_list_gfa1": re.compile(r"[!-)+-<>-~][!-~]*[+-](,[!-)+-<>-~][!-~]*[+-])*"),
    # --- GFA2 positional
    "identifier_gfa2": re.compile(r"[!-~]+"),
    "optional_identifier_gfa2": re.compile(r"[!-~]+"),  # '*' is an identifier-shaped placeholder
    "oriented_identifier_gfa2": re.compile(r"[!-~]+[+-]"),
    "identifier_list_gfa2": re.compile(r"[!-~]+( [!-~]+)*"),
    "oriented_identifier_list_gfa2": re.compile(r"[!-~]+[+-]( [!-~]+[+-])*"),
    "position_gfa2": re.compile(r"[0-9]+\$?"),
    "sequence_gfa2": re.compile(r"[!-~]+"),
    "alignment_gfa2": re.compile(r"\*|[0-9]+(,[0-9]+)*|([0-9]+[MDIP])+"),
    "optional_integer": re.compile(r"\*|[-+]?[0-9]+"),
    "generic": re.compile(r"[^\t\n]*"),
    "custom_record_type": re.compile(r"[!-~]+"),
    "comment": re.compile(r"[^\n]*"),
}

B_RANGE = {"c": (-2 ** 7, 2 ** 7 - 1), "C": (0, 2 ** 8 - 1), "s": (-2 ** 15, 2 ** 15 - 1),
           "S": (0, 2 ** 16 - 1), "i": (-2 ** 31, 2 ** 31 - 1), "I": (0, 2 ** 32 - 1)}

TAG_TYPES = "AifZJHB"


def _json_ok(s):
    try:
        v = json.loads(s)
    except Exception:
        return None
    return v


def accepts(datatype, s):
    """True iff string s is a valid encoding for the datatype (syntax *and* range)."""
    r = RE[datatype]
    if not r.fullmatch(s):
        return False
    if datatype == "J":
        v = _json_ok(s)
        return isinstance(v, (list, dict))
    if datatype == "B":
        st = s[0]
        if st == "f":
            return all(math.isfinite(float(x)) for x in s.split(",")[1:])
        lo, hi = B_RANGE[st]
        return all(lo <= int(x) <= hi for x in s.split(",")[1:])
    if datatype == "f":
        return math.isfinite(float(s))
    if datatype == "segment_name_gfa1":
        return not re.search(r"[+-],", s)
    return True


def judged(datatype, s):
    """False for strings on which specification and documentation are silent or
    ambiguous; those are counted as *provisional*, never asserted (DESIGN 4.1)."""
    if datatype == "J":
        v = _json_ok(s) if RE["J"].fullmatch(s) else None
        if v is not None and not isinstance(v, (list, dict)):
            return False  # scalar JSON: grammar says JSON, tutorial says list/dict
        if "NaN" in s or "Infinity" in s:
            return False  # python json extension
        return True
    if datatype in ("oriented_identifier_list_gfa1",):
        # a comma inside a segment name makes the list ambiguous
        return all(len(e) >= 2 and RE["segment_name_gfa1"].fullmatch(e[:-1]) and e[-1] in "+-"
                   and "," not in e for e in s.split(",")) or not RE[datatype].fullmatch(s)
    if datatype in ("segment_name_gfa1", "path_name_gfa1"):
        return "," not in s
    if datatype in ("f",) and RE["f"].fullmatch(s) and not math.isfinite(float(s)):
        return False  # 1e999: syntactically a float, not representable
    if datatype == "B" and RE["B"].fullmatch(s) and s[0] == "f":
        return all(math.isfinite(float(x)) for x in s.split(",")[1:])
    if datatype == "B" and s[:1] in ("C", "S", "I") and "-0" in s:
        return False  # "-0" in an unsigned array: in range by value, not by the unsigned syntax
    if datatype == "alignment_gfa2" and "," in s and "+" in s:
        return False  # explicit plus sign in a trace: <int> of the GFA2 grammar has none, tags allow it
    return True


# ---------------------------------------------------------------- canonical values

def canon_cigar(s):
    return tuple((int(n), op) for n, op in re.findall(r"([0-9]+)([MIDNSHPX=])", s))


def canon_alignment(s):
    if s == "*":
        return "*"
    if re.fullmatch(r"[0-9]+(,[0-9]+)*", s):
        return ("trace",) + tuple(int(x) for x in s.split(","))
    return ("cigar",) + canon_cigar(s)


def canon_float(x):
    x = float(x)
    if x == 0:
        x = 0.0  # -0.0 == 0.0
    return ("f", repr(x))


def canon_json(v):
    return json.dumps(v, sort_keys=True, separators=(",", ":"))


def canon_tag_value(t, s):
    if t == "i":
        return int(s)
    if t == "f":
        return canon_float(s)
    if t == "J":
        return canon_json(json.loads(s))
    if t == "H":
        return s.upper()
    if t == "B":
        parts = s.split(",")
        if parts[0] == "f":
            return ("Bf",) + tuple(canon_float(x) for x in parts[1:])
        return ("Bi",) + tuple(int(x) for x in parts[1:])
    return s


def canon_field(datatype, s):
    if datatype in TAG_TYPES:
        return canon_tag_value(datatype, s)
    if datatype in ("alignment_gfa1", "alignment_gfa2"):
        return canon_alignment(s)
    if datatype == "alignment_list_gfa1":
        return tuple(canon_alignment(x) for x in s.split(","))
    if datatype == "position_gfa1":
        return int(s)
    if datatype == "position_gfa2":
        return (int(s[:-1]), True) if s.endswith("$") else (int(s), False)
    if datatype == "optional_integer":
        return "*" if s == "*" else int(s)
    if datatype in ("oriented_identifier_list_gfa1",):
        return tuple(s.split(","))
    if datatype in ("oriented_identifier_list_gfa2", "identifier_list_gfa2"):
        return tuple(s.split(" "))
    return s


# ---------------------------------------------------------------- record tables

POS = {
    "gfa1": {
        "S": [("name", "segment_name_gfa1"), ("sequence", "sequence_gfa1")],
        "L": [("from_segment", "segment_name_gfa1"), ("from_orient", "orientation"),
              ("to_segment", "segment_name_gfa1"), ("to_orient", "orientation"),
              ("overlap", "alignment_gfa1")],
        "C": [("from_segment", "segment_name_gfa1"), ("from_orient", "orientation"),
              ("to_segment", "segment_name_gfa1"), ("to_orient", "orientation"),
              ("pos", "position_gfa1"), ("overlap", "alignment_gfa1")],
        "P": [("path_name", "path_name_gfa1"), ("segment_names", "oriented_identifier_list_gfa1"),
              ("overlaps", "alignment_list_gfa1")],
        "H": [],
    },
    "gfa2": {
        "S": [("sid", "identifier_gfa2"), ("slen", "i"), ("sequence", "sequence_gfa2")],
        "E": [("eid", "optional_identifier_gfa2"), ("sid1", "oriented_identifier_gfa2"),
              ("sid2", "oriented_identifier_gfa2"), ("beg1", "position_gfa2"),
              ("end1", "position_gfa2"), ("beg2", "position_gfa2"), ("end2", "position_gfa2"),
              ("alignment", "alignment_gfa2")],
        "F": [("sid", "identifier_gfa2"), ("external", "oriented_identifier_gfa2"),
              ("s_beg", "position_gfa2"), ("s_end", "position_gfa2"), ("f_beg", "position_gfa2"),
              ("f_end", "position_gfa2"), ("alignment", "alignment_gfa2")],
        "G": [("gid", "optional_identifier_gfa2"), ("sid1", "oriented_identifier_gfa2"),
              ("sid2", "oriented_identifier_gfa2"), ("disp", "i"), ("var", "optional_integer")],
        "O": [("pid", "optional_identifier_gfa2"), ("items", "oriented_identifier_list_gfa2")],
        "U": [("pid", "optional_identifier_gfa2"), ("items", "identifier_list_gfa2")],
        "H": [],
    },
}

PREDEFINED = {
    "gfa1": {
        "H": {"VN": "Z", "TS": "i"},
        "S": {"LN": "i", "RC": "i", "FC": "i", "KC": "i", "SH": "H", "UR": "Z"},
        "L": {"MQ": "i", "NM": "i", "RC": "i", "FC": "i", "KC": "i", "ID": "Z"},
        "C": {"MQ": "i", "NM": "i", "ID": "Z"},
        "P": {},
    },
    "gfa2": {
        "H": {"VN": "Z", "TS": "i"},
        "S": {"RC": "i", "FC": "i", "KC": "i", "SH": "H", "UR": "Z"},
        "E": {"TS": "i"},
        "F": {"TS": "i"},
        "G": {}, "O": {}, "U": {},
    },
}
ALL_PREDEFINED_NAMES = {"VN", "TS", "LN", "RC", "FC", "KC", "SH", "UR", "MQ", "NM", "ID"}
GFA2_RESERVED_TYPES = {"E", "G", "F", "O", "U", "H", "#", "S"}

TAG_RE = re.compile(r"([A-Za-z][A-Za-z0-9]):([AifZJHB]):(.+)", re.S)


class Rec:
    """A GFA record as plain text pieces."""
    __slots__ = ("rt", "pos", "tags", "version")

    def __init__(self, rt, pos, tags, version):
        self.rt = rt
        self.pos = list(pos)
        self.tags = [tuple(t) for t in tags]
        self.version = version

    def text(self):
        if self.rt == "#":
            return "#" + self.pos[0]
        return "\t".join([self.rt] + self.pos + ["%s:%s:%s" % t for t in self.tags])

    def plain(self):
        return [self.rt, list(self.pos), [list(t) for t in self.tags]]

    @staticmethod
    def from_plain(p, version):
        return Rec(p[0], p[1], p[2], version)

    def tag(self, name):
        for n, t, v in self.tags:
            if n == name:
                return (t, v)
        return None

    def __repr__(self):
        return "Rec(%r)" % self.text()


class ParseError(Exception):
    pass


def split_line(text, version):
    """Split a line into a Rec without judging field contents.  Custom records and
    GFA2 segments use the 'trailing fields that look like tags are tags' rule."""
    if text.startswith("#"):
        return Rec("#", [text[1:]], [], version)
    f = text.split("\t")
    rt = f[0]
    table = POS[version]
    if rt in table:
        npos = len(table[rt])
        if len(f) - 1 < npos:
            raise ParseError("too few fields: %r" % text)
        pos = f[1:1 + npos]
        tags = []
        for x in f[1 + npos:]:
            m = TAG_RE.fullmatch(x)
            if not m:
                raise ParseError("bad tag %r in %r" % (x, text))
            tags.append(m.groups())
        return Rec(rt, pos, tags, version)
    if version == "gfa1":
        raise ParseError("unknown GFA1 record type %r" % rt)
    # custom record: the tags are the longest run of trailing fields each of which is a valid tag (name,
    # datatype and a value the datatype accepts) with a name not used further right; everything before is positional
    first_tag = len(f)
    seen = set()
    for i in range(len(f) - 1, 0, -1):
        m = TAG_RE.fullmatch(f[i])
        if m and m.group(1) not in seen and m.group(2) in TAG_TYPES and accepts(m.group(2), m.group(3)):
            seen.add(m.group(1))
            first_tag = i
        else:
            break
    tags = [TAG_RE.fullmatch(x).groups() for x in f[first_tag:]]
    return Rec(rt, f[1:first_tag], tags, version)


def canon_rec(rec):
    """Canonical, hashable value of a record: record type, canonical positional
    values, *set* of canonical tags (tag order is not significant)."""
    if rec.rt == "#":
        return ("#", rec.pos[0])
    table = POS[rec.version].get(rec.rt)
    if table is None:
        pos = tuple(rec.pos)
    else:
        pos = tuple(canon_field(dt, s) for (_, dt), s in zip(table, rec.pos))
    tags = tuple(sorted(((n, t, canon_tag_value(t, v)) for n, t, v in rec.tags), key=repr))
    return (rec.rt, pos, tags)


def canon_line(text, version):
    return canon_rec(split_line(text, version))


def complement_cigar_ops(ops):
    sw = {"I": "D", "D": "I"}
    return tuple((n, sw.get(op, op)) for n, op in reversed(ops))


def complement_link_canon(c):
    """Complement of a canonical L record (canon_rec output)."""
    rt, pos, tags = c
    f, fo, t, to, ov = pos
    inv = {"+": "-", "-": "+"}
    if ov != "*":
        ov = ("cigar",) + complement_cigar_ops(ov[1:])
    return (rt, (t, inv[to], f, inv[fo], ov), tags)


def link_key(c):
    """Key identifying a link with its complement (tags ignored)."""
    a = c[1]
    b = complement_link_canon(c)[1]
    return min(a, b, key=repr)


def canon_doc(text, version):
    """Multiset (sorted list) of canonical records of a document text, with the
    documented normalisations: header lines split into one tag per line and VN/TS
    given once; a link identified with its complement (for comparison the
    lexicographically smaller form is used, first arrival's tags kept)."""
    from collections import Counter
    out = Counter()
    seen_links = {}
    single = {}
    for line in text.split("\n"):
        line = line.rstrip("\r")
        if line == "":
            continue
        rec = split_line(line, version)
        if rec.rt == "H":
            for n, t, v in rec.tags:
                c = ("H", (), ((n, t, canon_tag_value(t, v)),))
                if n in ("VN", "TS"):
                    if n in single:
                        continue
                    single[n] = c
                out[c] += 1
            continue
        c = canon_rec(rec)
        if rec.rt == "L":
            k = link_key(c)
            if k in seen_links:
                continue
            seen_links[k] = True
            c = (c[0], k, c[2])
        out[c] += 1
    return out


def counter_diff(a, b):
    """Human-readable difference of two Counters."""
    only_a = a - b
    only_b = b - a
    return {"only_expected": [repr(x) for x in only_a.elements()][:6],
            "only_actual": [repr(x) for x in only_b.elements()][:6]}
