#!/venv/bin/python
"""tools/addfinding.py ID PROPERTY COMMIT "what failed" [also,props]  -> appends a fixed entry"""
import json, sys, os
HERE = os.path.dirname(os.path.dirname(os.path.abspath(__file__)))
p = os.path.join(HERE, "known_findings.json")
d = json.load(open(p))
fid, prop, commit, what = sys.argv[1:5]
e = {"id": fid, "property": prop, "status": "fixed", "fix_commit": commit,
     "line": "fixed: property=%s %s %s" % (prop, commit, what)}
if len(sys.argv) > 5:
    e["also_breaks"] = sys.argv[5].split(",")
d["findings"] = [x for x in d["findings"] if x["id"] != fid] + [e]
json.dump(d, open(p, "w"), indent=1)
print("ok", fid)
