#!/bin/sh
# tools/sweep.sh "2 3 4 5"  : every quick check at the given seeds, evidence redirected; prints only problems
cd "$(dirname "$0")/.."
IDS=$(/venv/bin/python -c "import json; print(' '.join(c['property_id'] for c in json.load(open('MANIFEST.json'))['checks']))")
for s in ${1:-2 3 4 5 6}; do
  for id in $IDS; do
    out=$(VERIF_SEED=$s VERIF_EVIDENCE_DIR=/tmp/w/sweep_ev VERIF_REPLAY_DIR=/tmp/w/sweep_rp ./check $id 2>&1)
    rc=$?
    if [ $rc -ne 0 ]; then echo "### seed=$s $id exit=$rc"; echo "$out" | tail -15 | cut -c1-600; fi
  done
  echo "seed $s done"
done
