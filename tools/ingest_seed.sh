#!/bin/sh
# [ROUND2=1|ROUND3=1] tools/ingest_seed.sh C01   -> copies /tmp/seed/C01/_seed/{a,b} to seeded/C01-{a,b} and tests them
cd "$(dirname "$0")/.."
ID=$1
for v in a b; do
  src=/tmp/seed/$ID/_seed/$v
  [ -f $src/patch.diff ] || { echo "$ID-$v: no patch"; continue; }
  n=$v; [ -n "$ROUND2" ] && { [ $v = a ] && n=c || n=d; }
  [ -n "$ROUND3" ] && { [ $v = a ] && n=e || n=f; }
  [ -n "$ROUND4" ] && { [ $v = a ] && n=g || n=h; }
  [ -n "$ROUND5" ] && { [ $v = a ] && n=i || n=j; }
  [ -n "$ROUND6" ] && { [ $v = a ] && n=k || n=l; }
  dst=seeded/$ID-$n
  mkdir -p $dst
  cp $src/patch.diff $src/demo.py $dst/ 2>/dev/null
  cp $src/notes.md $dst/notes.md 2>/dev/null
  tools/seedtest.py $dst --checks ${2:-$ID} | tail -1 > $dst/last_test.json
  cat $dst/last_test.json | cut -c1-900
  echo
done
