#!/bin/sh
# runs every registered check (quick tier) and prints one line per check
cd "$(dirname "$0")/.."
TIER=${1:-quick}
IDS=$(/venv/bin/python -c "import json; print(' '.join(c['property_id'] for c in json.load(open('MANIFEST.json'))['checks']))")
mkdir -p /tmp/w/runall
for id in $IDS; do
  ( ./check $id --tier $TIER > /tmp/w/runall/$id.log 2>&1; echo "$id exit=$? $(grep -a 'tier=' /tmp/w/runall/$id.log | tail -1)" ) &
  # at most 3 at a time
  while [ $(pgrep -f "vf .*--tier" | wc -l) -ge 6 ]; do sleep 1; done
done
wait
grep -al "VIOLATION\|HARNESS" /tmp/w/runall/*.log
