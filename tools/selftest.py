#!/venv/bin/python
"""tools/selftest.py [--jobs N] [--only SUBSTR]
Sensitivity by reverted fixes: for every `fix:` commit of /repo the reverse of its diff is
applied to a scratch copy of /repo/gfapy (outside /repo and /verif, removed afterwards) and
the owning check (quick tier, VERIF_NO_REGRESS=1: the search itself has to find the defect
again, the saved regression case is not replayed) must exit 1.  Writes selftest_results.json."""
import json, os, shutil, subprocess, sys, tempfile
from concurrent.futures import ThreadPoolExecutor
HERE = os.path.dirname(os.path.dirname(os.path.abspath(__file__)))
jobs = int(sys.argv[sys.argv.index("--jobs") + 1]) if "--jobs" in sys.argv else 4
only = sys.argv[sys.argv.index("--only") + 1] if "--only" in sys.argv else None
kf = json.load(open(os.path.join(HERE, "known_findings.json")))["findings"]
log = subprocess.run(["git", "-C", "/repo", "log", "--format=%h\t%s", "0be7ea7..HEAD"], capture_output=True, text=True).stdout.strip().split("\n")
fixes = [l.split("\t", 1) for l in log if "\tfix:" in l]


SUPERSEDED = set(f["fix_commit"][:7] for f in kf if f.get("superseded") and f.get("fix_commit"))


def owner(h):
    for f in kf:
        if f.get("fix_commit", "")[:7] == h[:7]:
            return f["id"], f["property"], f.get("also_breaks", [])
    return None, None, []


def run(item):
    h, subj = item
    fid, prop, also = owner(h)
    if prop is None:
        return {"commit": h, "subject": subj, "status": "no-owner"}
    if h[:7] in SUPERSEDED:
        return {"commit": h, "finding": fid, "property": prop, "status": "superseded", "subject": subj[:90]}
    scratch = tempfile.mkdtemp(prefix="vfself_", dir="/tmp")
    try:
        shutil.copytree("/repo/gfapy", os.path.join(scratch, "gfapy"))
        diff = subprocess.run(["git", "-C", "/repo", "show", "--format=", h, "--", "gfapy"], capture_output=True, text=True).stdout
        r = subprocess.run(["git", "apply", "-R", "--whitespace=nowarn"], input=diff, cwd=scratch, capture_output=True, text=True)
        if r.returncode != 0:
            return {"commit": h, "finding": fid, "property": prop, "status": "reverse-does-not-apply"}
        res = {}
        for c in [prop] + [a for a in also if a != prop]:
            if any(v == 1 for v in res.values()):
                break  # caught already
            env = dict(os.environ, VERIF_GFAPY_ROOT=scratch, VERIF_NO_REGRESS="1", VERIF_EVIDENCE_DIR=os.path.join(scratch, "ev"),
                       VERIF_REPLAY_DIR=os.path.join(scratch, "rp"), VERIF_NPROC="4")
            r = subprocess.run([os.path.join(HERE, "check"), c], env=env, capture_output=True, text=True)
            res[c] = r.returncode
        status = "caught" if res[prop] == 1 else ("caught-by-other" if any(v == 1 for v in res.values()) else
                                                   ("harness-error" if res[prop] == 2 else "MISSED"))
        return {"commit": h, "finding": fid, "property": prop, "status": status,
                "exit": res, "subject": subj[:90]}
    finally:
        shutil.rmtree(scratch, ignore_errors=True)


items = [f for f in fixes if not only or only in f[1] or only in f[0]]
with ThreadPoolExecutor(jobs) as ex:
    out = list(ex.map(run, items))
for o in out:
    print(o.get("status"), o.get("finding"), o.get("property"), o["commit"], o.get("subject", "")[:70])
json.dump(out, open(os.path.join(HERE, "selftest_results.json"), "w"), indent=1)
from collections import Counter
print(Counter(o["status"] for o in out))
