#!/bin/sh
# tools/rebase_seed.sh SEED : tries to re-apply seeded/SEED/patch.diff to the current /repo with fuzz and rewrites the patch
S=$1
D=$(mktemp -d /tmp/vfrb_XXXX)
cp -r /repo/gfapy /repo/bin $D/
cd $D && git init -q . && git add -A && git commit -qm base >/dev/null
if patch -p1 --fuzz=3 --no-backup-if-mismatch < /verif/seeded/$S/patch.diff > $D/patch.log 2>&1; then
  find . -name "*.orig" -delete
  git diff > /verif/seeded/$S/patch.diff
  echo "$S: rebased ($(grep -c '^@@' /verif/seeded/$S/patch.diff) hunks)"
else
  echo "$S: FAILED"; cat $D/patch.log | head -5
fi
cd /; rm -rf $D
