#!/bin/sh
# tools/mutant.sh FILE 'sed-expression' CHECK [extra check args]  -> runs CHECK against a scratch copy of /repo/gfapy with the sed edit applied
F=$1; EXPR=$2; shift 2
D=$(mktemp -d /tmp/vfmut_XXXX)
cp -r /repo/gfapy /repo/bin $D/
sed -i "$EXPR" $D/$F
if diff -rq /repo/gfapy $D/gfapy >/dev/null && diff -rq /repo/bin $D/bin > /dev/null; then echo "mutant: sed changed nothing"; rm -rf $D; exit 3; fi
(diff -r /repo/gfapy $D/gfapy; diff -r /repo/bin $D/bin) | head -8
VERIF_GFAPY_ROOT=$D VERIF_EVIDENCE_DIR=$D/ev VERIF_REPLAY_DIR=$D/rp /verif/check "$@" 2>&1 | grep -a "tier=\|violation detail\|VIOLATION\|HARNESS" | cut -c1-300
rm -rf $D
