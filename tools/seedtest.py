#!/venv/bin/python
"""tools/seedtest.py SEED_DIR [--checks C01,C02|all] [--tier quick] [--skip-suite]

Confirms a seeded change (patch.diff + demo.py) and runs checks against it in a scratch
copy of /repo (outside /repo and /verif), which is removed afterwards:
  1. the patch applies; the repository test suite still passes (365 / the known failure);
  2. demo.py fails with the change and passes without it;
  3. the selected checks are run with VERIF_GFAPY_ROOT=<scratch>; exit status 1 = caught.
Prints a JSON summary on the last line."""
import argparse, json, os, shutil, subprocess, sys, tempfile, time

ap = argparse.ArgumentParser()
ap.add_argument("seed")
ap.add_argument("--checks", default=None)
ap.add_argument("--tier", default="quick")
ap.add_argument("--skip-suite", action="store_true")
ap.add_argument("--seeds", default="1")
a = ap.parse_args()
seed = os.path.abspath(a.seed)
meta = {}
if os.path.exists(os.path.join(seed, "meta.json")):
    meta = json.load(open(os.path.join(seed, "meta.json")))
scratch = tempfile.mkdtemp(prefix="vfseed_", dir="/tmp")
out = {"seed": os.path.basename(seed)}
try:
    for d in ("gfapy", "tests", "bin"):
        shutil.copytree(os.path.join("/repo", d), os.path.join(scratch, d))
    r = subprocess.run(["git", "apply", "--whitespace=nowarn", os.path.join(seed, "patch.diff")], cwd=scratch, capture_output=True, text=True)
    out["applies"] = r.returncode == 0
    if r.returncode != 0:
        out["apply_error"] = r.stderr[-500:]
        print(json.dumps(out)); sys.exit(2)
    env = dict(os.environ, PYTHONPATH=scratch, PYTHONDONTWRITEBYTECODE="1")
    if not a.skip_suite:
        r = subprocess.run(["/venv/bin/python", "-m", "pytest", "-q", "-p", "no:cacheprovider", "-x", "--deselect",
                            "tests/test_api_rgfa.py::TestAPIrGfa::test_stable_sequence_names"], cwd=scratch, env=env, capture_output=True, text=True)
        out["suite"] = r.stdout.strip().split("\n")[-1]
        out["suite_ok"] = r.returncode == 0
    demo = os.path.join(seed, "demo.py")
    if os.path.exists(demo):
        r1 = subprocess.run(["/venv/bin/python", demo], cwd=scratch, env=env, capture_output=True, text=True, timeout=300)
        r0 = subprocess.run(["/venv/bin/python", demo], cwd="/tmp", env=dict(os.environ, PYTHONPATH="/repo"), capture_output=True, text=True, timeout=300)
        out["demo_with_change"] = r1.returncode
        out["demo_without_change"] = r0.returncode
    checks = a.checks or meta.get("property") or os.path.basename(seed).split("-")[0]
    if checks == "all":
        checks = ",".join(c["property_id"] for c in json.load(open("/verif/MANIFEST.json"))["checks"])
    res = {}
    for c in checks.split(","):
        for sd in a.seeds.split(","):
            t0 = time.time()
            r = subprocess.run(["/verif/check", c, "--tier", a.tier], env=dict(os.environ, VERIF_GFAPY_ROOT=scratch, VERIF_SEED=sd,
                               VERIF_EVIDENCE_DIR=os.path.join(scratch, "evidence")), capture_output=True, text=True)
            line = [l for l in r.stdout.split("\n") if l.startswith("violation detail")]
            res["%s@%s" % (c, sd)] = {"exit": r.returncode, "s": round(time.time() - t0, 1), "detail": line[0][:160] if line else ""}
    out["checks"] = res
    out["caught_by"] = sorted(set(k.split("@")[0] for k, v in res.items() if v["exit"] == 1))
finally:
    shutil.rmtree(scratch, ignore_errors=True)
print(json.dumps(out))
