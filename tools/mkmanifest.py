#!/venv/bin/python
"""Regenerates MANIFEST.json from the table below (run after adding a check)."""
import json, os, subprocess
HERE = os.path.dirname(os.path.dirname(os.path.abspath(__file__)))
PIP = "/venv/bin/pip install -q --no-index --find-links /opt/veriftools/wheels"
CHECKS = {
 "C01": ("round-trip + fixed-point oracle against an independent GFA grammar/canonicaliser over generated documents (Hypothesis)",
         "6-C01", "Generated valid GFA1/GFA2 documents (all record types, all 7 tag datatypes) x vlevel 0-3 x entry points; written records compared as a multiset of canonical values computed by an independent parser, plus literal write fixed point; custom records with tag-shaped positional fields, LN tags on GFA2 segments, near-collision names, names like None/null/nan, zero-length segments, comments holding form feed / vertical tab / FS-GS-RS. Exploration: absence of violations on the cases generated, not a proof."),
 "C02": ("model-based mutation histories (Hypothesis-drawn, simulated on a text-level reference model) with closure/symmetry/registry invariants evaluated after every step",
         "6-C02", "Generated histories of add (text, Line object, clone of a Line object, original + clone)/rm/disconnect/rename (also towards an identifier that is only mentioned so far)/re-add (E lines with mirrored intervals) over all record types; after every step structural invariants of the object graph (closure, reference/back-reference symmetry with multiplicities, no ghost, ownership, registry) and model-derived back-reference collections are checked. Exploration."),
 "C03": ("differential testing over permutations of generated documents (random, targeted and all n! orders of small documents) plus model oracle",
         "6-C03", "Each permutation of a generated valid document must give the same full observation as the generation order, leave no placeholder, and match the model's back-references; a quarter of the GFA1 documents are crowded with parallel links under paths that name their overlaps. Exploration; the all-orders part is exhaustive per document (<= 6 lines)."),
 "C05": ("model-based mutation histories: incremental mutation vs. fresh parse of the edited text (differential), exact cascade from a text-level model",
         "6-C05", "After every step of a generated history the real lines must equal the text model (exact removal cascade, rename rewriting); at closed points the whole observation must equal that of a Gfa parsed afresh from the model text; parts wide-gfa1/wide-gfa2: reference lists of 66-90 entries. Exploration."),
 "C11": ("exhaustive enumeration of the E-line classification table and L/C/G orientation table + generated graphs against a specification-derived model",
         "6-C11", "All 196 E-line cells x arrival order x self-edge and all L/C/G orientation pairs are enumerated completely (exhaustive: true for that part); generated graphs add multi-entry collections. Collections and derived queries are compared with a model written from the specification; every segment in an answer must be the segment object of the graph, lists handed out by the Gfa belong to the caller, and the set of segments reachable from each segment (asked one after the other) follows from the dovetail collections."),
 "C16": ("generated graphs and model-based histories compared with an independent union-find / counting model",
         "6-C16", "connected_components, segment_connected_component and the n_* counts are compared with a union-find over the model's dovetails and with counts from the text, on generated documents and after every step of generated histories; remove_small_components(minlen) is compared with the model's edited text; chains of thousands of segments. Exploration."),
 "C04": ("exhaustive bounded enumeration of short strings per field datatype + single-edit mutations of valid values + semantically mutated documents, against an independent grammar (language equality)",
         "6-C04", "For each tag datatype and positional slot every string up to a length bound over a reduced alphabet is enumerated (exhaustive: true for those parts) and gfapy's accept/refuse verdict (construction, validate, read, write, Gfa.validate) is compared with an independent recogniser; documents with one semantic mutation of known verdict cover the cross-field rules and rGFA, as documents and line by line; a share of the strings is first handled at level 0 in the same process; begin <= end is judged on F lines as on E lines."),
 "C07": ("random/structured text generation, k-point mutation of valid documents and of the repository's test data, API-string fuzzing with exception bucketing, and bin/gfapy-validate as a subprocess (Hypothesis; Atheris coverage-guided fuzzing in the thorough tier)",
         "6-C07", "Arbitrary text as lines/documents/files and arbitrary strings through the public API at vlevel 0-3; any exception not derived from gfapy.Error is a leak, bucketed by class and innermost gfapy frame; watchdog for non-termination; bin/gfapy-validate on files (also files that are not valid UTF-8) must exit with 0 or 1 without a traceback and agree with the API; part scaling: 18 kinds of repetitive fields, 23 instead of 11 elements before a flaw must not take thousands of times longer (CPU time); rGFA documents with one rule broken; digit lookalikes. Exploration: absence of leaks on the generated inputs only."),
 "C12": ("algebraic laws (involution, reference/query length exchange, symmetry, repeatability) and graph-level metamorphic checks over generated links, with a model-computed complement",
         "6-C12", "Generated links (all orientation pairs, self-links, hairpins, CIGARs over MIDP=XH) are checked against the complement laws and a Gfa holding them against 'adding the complement adds nothing', 'a different edge adds one' and model-computed path direction flags in both arrival orders; several links (parallel ones included) and paths in one shuffled order; complement() of a connected link offered to another Gfa; canonicize(); CIGAR lengths up to 10**25."),
 "C19": ("clone of every line of generated documents + identity scan for shared mutable objects + exhaustive in-place editing of every reachable mutable value on either side",
         "6-C19", "Every line (stand-alone and connected, incl. merged header) is cloned; the clone must be detached, equal and textually identical; no mutable object may be reachable from both; every object with state of its own counts as mutable (lists, dicts, OrientedLine, FieldArray, CIGAR operations, LastPos); after editing every mutable value of one side the other side (line, Gfa, referenced lines) must be unchanged; a clone taken after a referenced segment was renamed writes the new identifier."),
 "C20": ("typed value generation on and around every datatype boundary; set -> write -> independent grammar check -> re-parse round trip; invalid classes must be reported by validation",
         "6-C20", "Python values in and just outside each tag datatype's range are assigned (set/attribute, declared or default datatype, vlevel 0-3); valid ones must be written in valid syntax and read back equal with the same datatype (B with the smallest subtype), invalid ones must be reported by validate_field/validate and at write time for vlevel >= 2."),
 "C06": ("generated GFA1 graphs and model-derived GFA2 graphs converted both ways; oracle = independent interval/alignment arithmetic, vlevel-3 re-parse of the output, round trip",
         "6-C06", "Conversions of generated graphs (asymmetric CIGARs, all orientations, containments at every offset, linear/circular/one-segment paths, both E role arrangements, records without counterpart) are compared record by record with a model of the coordinate arithmetic; outputs must parse at vlevel 3; there-and-back must be equivalent; bin/gfapy-convert as a subprocess is judged by the same oracle; O paths given by their edges only (two-cycles: a valid result or a refusal), nested O groups, groups over containments (no counterpart), comments, whole-segment overlaps, the rGFA dialect, the GFA2 positions a link reports for itself."),
 "C08": ("model-based histories with injected calls built to fail; observation before vs after each refused call (differential on the same object)",
         "6-C08", "About half of the steps of generated histories are calls constructed to be refused (collisions, version conflicts, malformed fields, header conflicts, contradictory group tags, read-only fields, unsupported VN on a Gfa of unknown version, a line naming itself on a pending identifier, a malformed item of a group continuation at vlevel 0, None for a positional field, identifiers of thousands of digits); whenever a call raises, the complete observation of the Gfa must equal the one taken before."),
 "C09": ("model-based histories of adds/renames/removals with collision attempts; namespace and lookup invariants after every step",
         "6-C09", "Histories over every identified record type with same-type and cross-type collisions (add and rename), integer-looking names and unused_name(); after each step the namespace, per-kind name lists, line()/segment() lookups and the written document are compared with the text model; collisions (also an ID given to a connected link, and a line that mentions its own identifier, an awaited link with the ID of a pending segment) must raise NotUniqueError and leave the state unchanged (documented merges excepted); renames towards pending identifiers, identifiers handed out by a conversion, histories that start from groups only."),
 "C10": ("random sequences of calls from an explicit catalogue of 76 read-only operations on generated Gfa states; deep fingerprint before/after each call and repeatability of results",
         "6-C10", "After every call of a random sequence of read-only operations a deep fingerprint of the Gfa (texts, field values, ordered back-reference lists, name lists) must be unchanged and the repeated call must return an equal result; an argument the caller owns (a select() criterion) is made once, passed to both calls and must be left as it was; part purity-big: groups and paths of hundreds of items."),
 "C13": ("exhaustive enumeration of short sequences of line kinds x version parameter x vlevel against a version-inference table + generated mixed documents in random orders",
         "6-C13", "All sequences of up to 3 (quick) / 4 (thorough) lines over 16 line kinds x version parameter x vlevel are enumerated (exhaustive: true for that part), incrementally and through Gfa(list); at vlevel 0, 1, 2, also with identical repeated lines; the inferred version / VersionError verdict must match the model table for every order and every queued line must appear exactly once; Line objects and their clones as deciding lines; a VN header other than 1.0/2.0 and documents without version-specific lines give the same outcome in every order and through every entry point (list, string, file, add_line)."),
 "C18": ("differential across validation levels on generated valid and mutated documents; assignment programs with grammar-judged values checked for when the error surfaces",
         "6-C18", "The same document is loaded at vlevel 0-3 (same graph, same text, monotone acceptance); assignment programs with values the independent grammar accepts or rejects check that an invalid value raises at the assignment at level 3, at write time at level >= 2 and in validate_field at every level, and that valid values are never rejected; the same for header.add() programs and for programs that edit a line and its clones side by side; part wrong-type: positional fields given values of a Python type their datatype cannot hold."),
 "C14": ("planted-structure graph generation; chains, spelled sequences and re-attached links recomputed by an independent model; search over bijections for fresh names",
         "6-C14", "Graphs with planted chains (all orientation patterns, cycles, branching, hairpins, parallel links, with and without sequences) are checked against chains recomputed from the text; after merging, the merged segments' sequences/LN, the outward links, bystanders, components, invariants and idempotence are compared with the model, also under the options merged_name / cut_counts / enable_tracking, through bin/gfapy-mergelinear, with the edges loaded before the segments, and with members named like merged names."),
 "C15": ("generated graphs x segment x factor x distribution policy x copy names; oracle derived from the statement (faithful copies, floor-divided counts, distribution as subset + coverage predicates)",
         "6-C15", "multiply() is run over generated graphs and every factor/policy/name option; copies, counts, copied edges, link distribution (validity predicate: nothing invented, every neighbour kept, every copy served), factor 0/1/negative, unknown policies and bystanders are checked against expectations computed from the text; apply_copy_numbers() is checked by a validity predicate derived from the statement; requested copy names that cannot be given must be refused without any change; twin containments."),
 "C17": ("construction-based generation (O group derived from a planted walk) with a brute-force enumeration of all walks consistent with an item list; three-way classification (equality / must-raise / validity predicate); multi-line and induced-set models",
         "6-C17", "Ordered groups are derived from planted walks (elided edges/segments, nested and reversed groups) or mutated; the model enumerates every consistent alternating walk and demands equality (also where a nested path ends with an edge and the list goes on with the segment it leads to), an error, or membership; multi-line definitions and induced sets are compared with models computed from the text; twin unnamed edges (the ambiguity must be reported, both are induced)."),
}
NOT_APPLICABLE = {
}
def hook_commits():
    return []
def main():
    props = [json.loads(l) for l in open(os.path.join(HERE, "properties.jsonl"))]
    checks = []
    for p in props:
        pid = p["id"]
        if pid not in CHECKS:
            continue
        tech, ref, text = CHECKS[pid]
        checks.append({
            "property_id": pid,
            "quick_cmd": "./check %s --tier quick" % pid,
            "thorough_cmd": "./check %s --tier thorough" % pid,
            "evidence_file": "evidence/%s.json" % pid,
            "replay_cmd_template": "./check %s --replay {path}" % pid,
            "engine": "vf",
            "level_claimed": {"category": "exploration", "text": text, "design_ref": "DESIGN.md section " + ref},
            "level_note": "Trusted base: CPython 3.12, Hypothesis 6.168, the independent grammar/model in vf/ (about 2 kLOC, cross-checked against tests/testdata). Holds only for the generated/enumerated cases; input-domain restrictions are listed in the evidence 'assumptions'.",
            "technique": tech,
        })
    na = []
    for p in props:
        if p["id"] not in CHECKS:
            na.append({"property_id": p["id"], "reason": NOT_APPLICABLE.get(p["id"], "check not built yet (work in progress); not claimed")})
    m = {
        "version": 1,
        "setup_cmd": "(/venv/bin/python -c 'import hypothesis' 2>/dev/null || %s hypothesis) && (%s --target /verif/.deps atheris || true)" % (PIP, PIP),
        "hooks": {"guard": "GFAPY_VERIF", "enable": "no source hooks are needed: gfapy is pure Python and every check observes it through its public API (plus reading Line._refs); checks import gfapy from /repo's working tree in a fresh process (vf/env.py) with GFAPY_VERIF=1 exported",
                  "baseline_off_cmd": "cd /repo && /venv/bin/python -m pytest -ra -q -p no:cacheprovider --timeout=900 --continue-on-collection-errors",
                  "source_commits": hook_commits(), "add_only": True},
        "engines": [{"name": "vf", "path": "vf/", "serves_properties": sorted(CHECKS), "kind_free_text": "property-based testing (Hypothesis 6.168), exhaustive enumeration of bounded domains, model-based histories, Atheris fuzzing for C07 thorough"}],
        "checks": checks,
        "not_applicable": na,
        "notes": "All checks: ./check <ID> [--tier quick|thorough] [--replay FILE]; VERIF_SEED honoured; exit 2 = harness error. Known findings / fixed defects: known_findings.json (D1-D129, all fixed by fix: commits in /repo; no open finding, no check prints a KNOWN-FINDING line). Seeded changes used for the sensitivity tests: seeded/ (226 kept after six rounds, table in DESIGN.md section 7).",
    }
    with open(os.path.join(HERE, "MANIFEST.json"), "w") as f:
        json.dump(m, f, indent=1)
    print("checks:", len(checks), "not_applicable:", len(na))
main()
