#!/bin/sh
# tools/withseed.sh SEED_ID CHECK [args]  -> runs ./check against a scratch copy of /repo with seeded/<SEED_ID>/patch.diff applied (full output)
S=$1; shift
D=$(mktemp -d /tmp/vfws_XXXX)
cp -r /repo/gfapy /repo/bin /repo/tests $D/
(cd $D && git apply --whitespace=nowarn /verif/seeded/$S/patch.diff) || { echo "patch does not apply"; rm -rf $D; exit 3; }
VERIF_GFAPY_ROOT=$D VERIF_EVIDENCE_DIR=$D/ev VERIF_REPLAY_DIR=$D/rp /verif/check "$@" 2>&1
rm -rf $D
