#!/venv/bin/python
"""Rewrites the seeded-change table in DESIGN.md (between the SEEDTABLE markers) from seeded/*/meta.json."""
import json, os, glob, re
HERE = os.path.dirname(os.path.dirname(os.path.abspath(__file__)))
rows = []
for d in sorted(glob.glob(os.path.join(HERE, "seeded", "C*"))):
    m = json.load(open(os.path.join(d, "meta.json")))
    rows.append("| %s | %s | %s | %s |" % (m["id"], m.get("needs_to_manifest", "").replace("|", "/"), ", ".join(m.get("caught_by") or []) or "**missed**",
                                        m.get("history", "").replace("|", "/")))
table = "<!-- SEEDTABLE-BEGIN -->\n| seeded change | needs, in order to manifest | caught by (quick tier) | history |\n|---|---|---|---|\n" + "\n".join(rows) + "\n<!-- SEEDTABLE-END -->"
p = os.path.join(HERE, "DESIGN.md")
s = open(p).read()
if "SEEDTABLE-PLACEHOLDER" in s:
    s = s.replace("SEEDTABLE-PLACEHOLDER", table)
else:
    s = re.sub(r"<!-- SEEDTABLE-BEGIN -->.*<!-- SEEDTABLE-END -->", lambda m_: table, s, flags=re.S)
open(p, "w").write(s)
print(len(rows), "rows")
