#!/bin/sh
# tools/fix.sh ID PROP "fix: commit message" "what failed (finding text)" REPLAY_FILE [also,props]
# commits the working-tree change of /repo as one fix: commit (after the test suite), saves the replay under regress/ and records the fixed finding
ID=$1; PROP=$2; MSG=$3; WHAT=$4; RP=$5; ALSO=$6
cd /repo || exit 1
R=$(/venv/bin/python -m pytest -q -p no:cacheprovider --deselect tests/test_api_rgfa.py::TestAPIrGfa::test_stable_sequence_names 2>&1 | tail -1)
echo "suite: $R"
case "$R" in *failed*) echo "suite fails, not committing"; exit 1;; esac
git commit -qam "$MSG" || exit 1
H=$(git log --format=%h -1)
cd /verif
[ -n "$RP" ] && cp "$RP" regress/
if [ -n "$ALSO" ]; then tools/addfinding.py $ID $PROP $H "$WHAT" $ALSO; else tools/addfinding.py $ID $PROP $H "$WHAT"; fi
