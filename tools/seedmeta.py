#!/venv/bin/python
"""tools/seedmeta.py [--checks all] : re-tests every seeded change (tools/seedtest.py) and
rewrites seeded/<id>/meta.json (property, description from notes.md, what was run, result)."""
import json, os, subprocess, sys, glob
HERE = os.path.dirname(os.path.dirname(os.path.abspath(__file__)))
only = [a for a in sys.argv[1:] if not a.startswith("--")]
seeds = "1,2" if "--two-seeds" in sys.argv else "1"
for d in sorted(glob.glob(os.path.join(HERE, "seeded", "C*"))):
    sid = os.path.basename(d)
    if only and sid not in only:
        continue
    prop = sid.split("-")[0]
    notes = open(os.path.join(d, "notes.md")).read() if os.path.exists(os.path.join(d, "notes.md")) else ""
    old = json.load(open(os.path.join(d, "meta.json"))) if os.path.exists(os.path.join(d, "meta.json")) else {}
    checks = ",".join(sorted(set([prop] + old.get("also_run", []))))
    r = subprocess.run([os.path.join(HERE, "tools", "seedtest.py"), d, "--checks", checks, "--seeds", seeds], capture_output=True, text=True)
    res = json.loads(r.stdout.strip().split("\n")[-1])
    meta = {
        "id": sid, "property": prop,
        "origin": old.get("origin", "written blind by a sub-agent that saw only the property text and a scratch worktree"),
        "needs_to_manifest": old.get("needs_to_manifest", ""),
        "notes": notes.strip()[:3000],
        "confirmed": {"patch_applies": res.get("applies"), "suite": res.get("suite"), "demo_with_change_exit": res.get("demo_with_change"),
                      "demo_without_change_exit": res.get("demo_without_change")},
        "ran": "tools/seedtest.py seeded/%s --checks %s --seeds %s (scratch copy of /repo, VERIF_GFAPY_ROOT)" % (sid, checks, seeds),
        "check_results": res.get("checks"), "caught_by": res.get("caught_by"),
        "also_run": old.get("also_run", []), "history": old.get("history", ""),
    }
    json.dump(meta, open(os.path.join(d, "meta.json"), "w"), indent=1)
    print(sid, "caught_by", res.get("caught_by"), "demo", res.get("demo_with_change"), res.get("demo_without_change"), res.get("suite"))
    try:
        os.remove(os.path.join(d, "last_test.json"))
    except OSError:
        pass
